#!/bin/sh
# Builds the framework from files on disk only and warms the Go build cache
# (plain and instrumented builds of the worker against /repo's tree).
set -e
cd /verif/engine
export GOFLAGS=-mod=mod GOPROXY=off GOSUMDB=off GOTOOLCHAIN=local
cp /repo/go.sum go.sum
mkdir -p bin
go build -o bin/vcheck ./cmd/vcheck
go build -o bin/mkoverlay ./cmd/mkoverlay
W=$(mktemp -d)
trap 'rm -rf "$W"' EXIT
bin/mkoverlay -repo /repo -engine /verif/engine -out "$W/ov"
go build -overlay "$W/ov/overlay.json" -tags verif -o "$W/worker-instr" ./cmd/worker
go build -o "$W/worker-plain" ./cmd/worker
echo setup ok
