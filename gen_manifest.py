#!/usr/bin/env python3
"""Regenerates /verif/MANIFEST.json from the table below (kept in one place so the
manifest always validates)."""
import json
CLAIMED = {
 "C01": ("seqx", "model_checking", "Bounded exhaustive exploration of the real code: every history up to the stated depth over forced-collision alphabets (5 profiles: file-backed core with Flush/Evict/Reopen and every random eviction branch, memory-only, two collections, boundary arguments, Set/Get wrappers with enumerated random priorities); every return value and a full public-API read battery at the end of every history are compared with a plain-map reference model. Tests sample a handful of scripts; this covers all histories within the bound.", "5.C01", "explicit-state search over operation histories of the implementation against a reference map"),
}
NA_REASON = "check not built yet in this round (engine under construction); will be claimed when its check exists"
ALL = ["C%02d" % i for i in range(1, 20)]
m = {
 "version": 1,
 "setup_cmd": "sh /verif/setup.sh",
 "hooks": {
  "guard": "verif",
  "enable": "no hooks are committed in /repo: every check generates the instrumented copy of package gkvlite from /repo's working tree (engine/cmd/mkoverlay) and builds it with `go build -overlay <generated>/overlay.json -tags verif`; the only file carrying the tag is the overlay-added introspection file",
  "baseline_off_cmd": "cd /repo && GOFLAGS=-mod=mod GOPROXY=off GOSUMDB=off GOTOOLCHAIN=local go test -vet=off -count=1 -timeout 25m -skip 'TestFlushRevertEmptyStore|TestFlushRevert$' ./...",
  "source_commits": [],
  "add_only": True,
 },
 "engines": [
  {"name": "seqx", "path": "engine/explore + engine/props/seq.go", "serves_properties": [], "kind_free_text": "explicit-state search over operation histories: depth-first enumeration of every choice sequence (operations, random bits) of the real store against a reference model, sharded over 16 processes"},
 ],
 "checks": [],
 "not_applicable": [],
 "notes": "All checks explore /repo's current working tree (instrumented through a generated go build overlay, /repo is never written). Exit 0 = held on everything explored; exit 1 + VIOLATION line = violation; exit 2 = framework error (no verdict).",
}
for pid in ALL:
    if pid in CLAIMED:
        eng, level, text, ref, tech = CLAIMED[pid]
        m["checks"].append({
            "property_id": pid,
            "quick_cmd": "/verif/check %s quick" % pid,
            "thorough_cmd": "/verif/check %s thorough" % pid,
            "evidence_file": "/verif/evidence/%s.json" % pid,
            "replay_cmd_template": "/verif/check %s --replay {path}" % pid,
            "engine": eng,
            "level_claimed": {"category": level, "text": text, "design_ref": ref},
            "level_note": "trusted base: sequential consistency and accessor-level atomicity of the controlled scheduler; the overlay shims (sync, atomic, rand, channels) preserve semantics, checked on every run by replaying explored histories on the pristine build; finite alphabets and depth bounds as reported in the evidence file",
            "technique": tech,
        })
        for e in m["engines"]:
            if e["name"] == eng:
                e["serves_properties"].append(pid)
    else:
        m["not_applicable"].append({"property_id": pid, "reason": NA_REASON})
json.dump(m, open("/verif/MANIFEST.json", "w"), indent=1)
print("claimed", len(m["checks"]), "n/a", len(m["not_applicable"]))
