#!/usr/bin/env python3
"""Regenerates /verif/MANIFEST.json from the table below (kept in one place so the
manifest always validates)."""
import json
CLAIMED = {
 "C01": ("seqx", "model_checking", "Bounded exhaustive exploration of the real code: every history up to the stated depth over forced-collision alphabets (5 profiles: file-backed core with Flush/Evict/Reopen and every random eviction branch, memory-only, two collections, boundary arguments, Set/Get wrappers with enumerated random priorities); every return value and a full public-API read battery at the end of every history are compared with a plain-map reference model. Tests sample a handful of scripts; this covers all histories within the bound.", "5.C01", "explicit-state search over operation histories of the implementation against a reference map"),
}
CLAIMED.update({
 "C02": ("seqx", "model_checking", "Every history up to the depth bound over mutations on two collections, collection creation/replacement/removal, Evict, Flush and Reopen-and-continue; at the end of every history a byte copy of the file is opened in a fresh Store and its complete public-API read battery must equal the model's newest durable state (never anything newer). Flush positions are not sampled: Flush is a letter of the alphabet.", "5.C02", "explicit-state search over operation histories with a reopen-a-copy oracle at every state"),
 "C04": ("seqx", "model_checking", "Every history up to the depth bound interleaving mutations, evictions, flushes, collection removal/replacement and Close of the original with creation, reading, FlushRevert and closing of snapshots and snapshots of snapshots; every open snapshot must equal the model copy taken at its creation, the original must equal the model, and the file monitor flags any write/truncate issued by a snapshot letter.", "5.C04", "explicit-state search over operation histories against per-snapshot model copies"),
 "C08": ("seqx", "model_checking", "Every history up to the depth bound over Set/Delete, SetCollection, Flush, FlushRevert and Reopen (0, 1, many flushes; reverts past the first flush; unflushed changes pending; across re-opens) plus a memory-only profile. Termination is decided by a per-call step budget on the instrumented synchronisation/atomic/file operations, not by a wall clock.", "5.C08", "explicit-state search over operation histories with a flush-stack model and a step-budget hang oracle"),
 "C10": ("seqx", "model_checking", "Every history up to the depth bound over two stores sharing the process-wide free lists, with snapshots, replaced/recreated collections, an iterator left open across operations and mutations nested inside visitor callbacks; oracle 1 inspects the free list directly (no freed node reachable from an open handle), oracle 2 forces reuse of everything freed and then compares every open handle and every open iterator with the model.", "5.C10", "explicit-state search over multi-store histories with direct free-list inspection and forced reuse"),
 "C12": ("seqx", "model_checking", "Every history up to the depth bound over SetCollection (new/existing names, three comparators), RemoveCollection (present/absent), mutations through the registered handle, Flush, Reopen and a snapshot; names, contents, isolation of other collections and of the snapshot, and durability-at-Flush-only are compared with the model at the end of every history.", "5.C12", "explicit-state search over operation histories against a reference map of collections"),
 "C15": ("seqx", "model_checking", "Every history up to the depth bound over mutations, lookups in both value modes, Exist, Min, visits with and without early stop, an iterator closed early, eviction, flush, re-open, collection removal/replacement and snapshots, followed by closing snapshots and store in both orders; counting ItemAlloc/ItemAddRef/ItemDecRef callbacks decide: no count below zero, every item handed out or reachable from an open handle (side-effect-free walk of the cached tree) has a positive count, all counts zero after everything is closed and all producer goroutines have quiesced.", "5.C15", "explicit-state search over operation histories with counting callbacks and cached-tree introspection"),
 "C16": ("seqx", "model_checking", "Exhaustive product over collection sizes (every n in a small range, the sizes around 1024/2048/3072), store kinds (memory, flushed+evicted, re-opened), priority patterns, key sets and APIs: Len, VisitItemsAscendBlockEx with nil/identity/reverse/rotate and (small n) every block permutation, VisitItemsRandom with every answer sequence of the random source for small n and every single deviation from the default sequence above; oracle: Len = n and every key presented exactly once.", "5.C16", "exhaustive enumeration of sizes x configurations x random-source answers on the implementation"),
 "C06": ("seqx", "model_checking", "Exhaustive product on the real store: contents (every Set sequence up to the bound over 3 keys of two lengths: every subset, insertion order, priority order with ties and overwrites) x 6 cache states (dirty, flushed, flushed+evicted with every random path, re-opened, re-opened+value load, re-opened+partial visit) x 3 comparators x 11 targets x 6 APIs (incl. both iterators) x withValue x every visitor stop position; delivered sequence, key/priority/value and the Ex depth (against the side-effect-free walk of the tree) are compared with the model range.", "5.C06", "exhaustive enumeration of contents x cache states x comparators x targets x APIs x stop positions on the implementation"),
 "C09": ("seqx", "model_checking", "File monitor evaluated on every individual WriteAt/Truncate of every history of three profiles (all read-only entry points mixed with mutations/Flush/Reopen/FlushRevert and snapshots; the two-collection store alphabet with FlushRevert; tools/view built from the tree run on every distinct flushed image): writes never below the end of the last durable root record, writes of a Flush tile the appended region, Truncate only in FlushRevert of the writable store to 0 or a root-record end (independent decoder), zero writes during read-only calls.", "5.C09", "explicit-state search over operation histories with a per-call file monitor"),
 "C11": ("seqx", "model_checking", "Every source state reached by histories up to the bound (two collections, one with a reverse comparator, empty stores/collections, evicted/re-opened caches) x source kind (writable store, snapshot) x flushEvery in {-1,0,1,2,3,n,n+1}; the result store, the re-opened destination image, the one-item-record-per-key compaction condition (independent decoder over all roots of the destination) and the untouched source are all checked.", "5.C11", "explicit-state search over source histories x CopyTo configurations"),
 "C13": ("seqx", "model_checking", "Exhaustive small scopes: every history up to the bound over Set(k,p) for 4 keys x 4 priorities (all insertion orders, rankings, ties), Delete, Flush, Evict (every branch), Reopen; at every end state search order, exact aggregates, conditional heap order and canonical depth are checked on the cached tree (side-effect-free walk) and order + aggregates on every persisted node record (independent decoder).", "5.C13", "exhaustive small-scope enumeration of insertion orders x priority assignments x edits with tree introspection"),
 "C14": ("seqx", "model_checking", "After every Flush and for every CopyTo destination in every history up to the bound (store alphabet; size/name profile with key lengths up to 65535, values up to 70000 bytes, unusual collection names, empty collections) an independent decoder written from the documented layout must accept all records, reconstruct the model's flushed state and explain every appended byte as an item, node or root record reachable from the new root.", "5.C14", "explicit-state search over histories with an independent file-format decoder as oracle"),
 "C17": ("seqx", "model_checking", "All 512 subsets of the nine store callbacks (neutral implementations, values written/read in two chunks) x every history up to the bound, with the C01/C02/C09/C14 oracles on and the additional requirement that the observation log equals the log of the same history without callbacks; the 9 singletons, the empty and the full set at larger depth.", "5.C17", "exhaustive enumeration of callback configurations x operation histories with differential log comparison"),
 "C19": ("seqx", "model_checking", "Every history up to the bound over mutations, key-only lookups/visits/Len, value-loading reads (to vary the cache), Flush, Evict, Reopen; every ReadAt issued during a key-only call is checked against the value byte ranges of all item records (independent decoder over all roots); every open of a file ending in a root record may only Stat and read inside that record and must leave nothing cached; at the end of every history the file is re-opened and all key-only operations run on the never-loaded store.", "5.C19", "explicit-state search over histories with a per-read file monitor"),
 "C07": ("faultx", "fault_enumeration", "Exhaustive single-fault enumeration on the real code: 5 initial stores x every history up to the bound over all I/O-performing entry points x a failure at every individual ReadAt/WriteAt/Stat/Truncate index (writes: outright and torn), both continuations (retry / no retry) after the failure, then a fixed suffix (mutation, Flush, full read battery, copy re-opened, Reopen). The enumeration index is the I/O sequence number, so no position is sampled. Thorough: every torn length, depth 3, every single deviation of the eviction walks, and all pairs of faults on single operations.", "5.C07", "exhaustive fault-position enumeration at the StoreFile seam over operation histories"),
})
NA_REASON = "check not built yet in this round (engine under construction); will be claimed when its check exists"
ALL = ["C%02d" % i for i in range(1, 20)]
m = {
 "version": 1,
 "setup_cmd": "sh /verif/setup.sh",
 "hooks": {
  "guard": "verif",
  "enable": "no hooks are committed in /repo: every check generates the instrumented copy of package gkvlite from /repo's working tree (engine/cmd/mkoverlay) and builds it with `go build -overlay <generated>/overlay.json -tags verif`; the only file carrying the tag is the overlay-added introspection file",
  "baseline_off_cmd": "cd /repo && GOFLAGS=-mod=mod GOPROXY=off GOSUMDB=off GOTOOLCHAIN=local go test -vet=off -count=1 -timeout 25m -skip 'TestFlushRevertEmptyStore|TestFlushRevert$' ./...",
  "source_commits": [],
  "add_only": True,
 },
 "engines": [
  {"name": "faultx", "path": "engine/harness/memfile.go + engine/props/c07.go", "serves_properties": [], "kind_free_text": "environment deviations on top of seqx: the in-memory StoreFile asks the explorer at every call whether it fails (deviation bound 1, thorough 2)"},
  {"name": "seqx", "path": "engine/explore + engine/props/seq.go", "serves_properties": [], "kind_free_text": "explicit-state search over operation histories: depth-first enumeration of every choice sequence (operations, random bits) of the real store against a reference model, sharded over 16 processes"},
 ],
 "checks": [],
 "not_applicable": [],
 "notes": "All checks explore /repo's current working tree (instrumented through a generated go build overlay, /repo is never written). Exit 0 = held on everything explored; exit 1 + VIOLATION line = violation; exit 2 = framework error (no verdict).",
}
for pid in ALL:
    if pid in CLAIMED:
        eng, level, text, ref, tech = CLAIMED[pid]
        m["checks"].append({
            "property_id": pid,
            "quick_cmd": "/verif/check %s quick" % pid,
            "thorough_cmd": "/verif/check %s thorough" % pid,
            "evidence_file": "/verif/evidence/%s.json" % pid,
            "replay_cmd_template": "/verif/check %s --replay {path}" % pid,
            "engine": eng,
            "level_claimed": {"category": level, "text": text, "design_ref": ref},
            "level_note": "trusted base: sequential consistency and accessor-level atomicity of the controlled scheduler; the overlay shims (sync, atomic, rand, channels) preserve semantics, checked on every run by replaying explored histories on the pristine build; finite alphabets and depth bounds as reported in the evidence file",
            "technique": tech,
        })
        for e in m["engines"]:
            if e["name"] == eng:
                e["serves_properties"].append(pid)
    else:
        m["not_applicable"].append({"property_id": pid, "reason": NA_REASON})
json.dump(m, open("/verif/MANIFEST.json", "w"), indent=1)
print("claimed", len(m["checks"]), "n/a", len(m["not_applicable"]))
