// Package explore is the stateless explorer: an execution is a function of a
// finite choice sequence; Explore enumerates, depth first, every choice
// sequence within the per-class deviation budgets, running each exactly once.
package explore

import (
	"fmt"
	"time"
)

// Choice classes (must agree with vsched).
const (
	ClassOp    = 0
	ClassSched = 1
	ClassRand  = 2
	ClassFault = 3
	ClassCrash = 4
)

// Point is one recorded choice point of an execution.
type Point struct {
	N      int
	Class  int
	Cost   bool // a non-default choice here costs one deviation of its class
	Chosen int
}

// Chooser replays a prefix and answers 0 afterwards, recording every point.
type Chooser struct {
	Prefix   []int
	Points   []Point
	Diverged string
}

func (c *Chooser) next(n, class int, cost bool) int {
	k := 0
	pos := len(c.Points)
	if pos < len(c.Prefix) {
		k = c.Prefix[pos]
		if k >= n || k < 0 {
			if c.Diverged == "" {
				c.Diverged = fmt.Sprintf("choice %d at point %d out of range %d (class %d)", k, pos, n, class)
			}
			k = 0
		}
	}
	c.Points = append(c.Points, Point{N: n, Class: class, Cost: cost, Chosen: k})
	return k
}

// Choose implements the environment-choice half of vsched.Chooser.
func (c *Chooser) Choose(n int, class int) int { return c.next(n, class, true) }

// ChooseSched implements the scheduling half: picking another thread while the
// running one is still enabled costs a preemption.
func (c *Chooser) ChooseSched(n int, runningEnabled bool) int {
	return c.next(n, ClassSched, runningEnabled)
}

// Choices returns the choice sequence actually taken.
func (c *Chooser) Choices() []int {
	out := make([]int, len(c.Points))
	for i, p := range c.Points {
		out[i] = p.Chosen
	}
	return out
}

// HasClass reports whether any point of the given class was passed.
func (c *Chooser) HasClass(class int) bool {
	for _, p := range c.Points {
		if p.Class == class {
			return true
		}
	}
	return false
}

// Viol is an oracle failure reported by an execution.
type Viol struct {
	Oracle, Sig, Msg string
}

// Outcome of one execution.
type Outcome struct {
	Viols       []Viol
	StateHash   uint64
	ObsHash     uint64 // hash of the observation log (distinct outcomes)
	Transitions int
	Sample      string
	Log         string // full observation log (differential replay)
	Skip        bool   // execution is not a valid case (not counted)
	NonTrivial  bool
	Extra       map[string]int64
}

// Exec runs one execution.
type Exec func(c *Chooser) *Outcome

// Found is a violation with the choice sequence that reproduces it.
type Found struct {
	Viol    Viol
	Choices []int
	Sample  string
	Profile string
}

// Trace is an execution recorded for the differential replay on the pristine build.
type Trace struct {
	Profile string
	Choices []int
	Log     string
}

// Explorer enumerates executions.
type Explorer struct {
	Exec       Exec
	Profile    string
	Budget     map[int]int // class -> max deviations; absent = unbounded
	Shard      int
	Shards     int
	ShardLevel int
	Deadline   time.Time
	MaxTraces  int
	MaxExec    int64

	Executions  int64
	Skipped     int64
	Transitions int64
	NonTrivial  int64
	MaxPoints   int
	States      map[uint64]struct{}
	Outcomes    map[uint64]struct{}
	Found       []Found
	sigSeen     map[string]int
	Samples     []string
	Traces      []Trace
	Extra       map[string]int64
	Truncated   bool
	TruncReason string
	Diverged    []string
	jobs        int64
}

func (x *Explorer) init() {
	if x.States == nil {
		x.States = map[uint64]struct{}{}
		x.Outcomes = map[uint64]struct{}{}
		x.sigSeen = map[string]int{}
		x.Extra = map[string]int64{}
	}
	if x.Shards <= 0 {
		x.Shards = 1
	}
	if x.ShardLevel <= 0 {
		x.ShardLevel = 2
	}
}

// Run explores everything within the budgets.
func (x *Explorer) Run() {
	x.init()
	x.explore(nil, 0)
}

func (x *Explorer) overBudget(points []Point, upto int, alt Point) bool {
	lim, ok := x.Budget[alt.Class]
	if !ok || lim < 0 {
		return false
	}
	used := 0
	for i := 0; i < upto; i++ {
		p := points[i]
		if p.Class == alt.Class && p.Cost && p.Chosen != 0 {
			used++
		}
	}
	if alt.Cost {
		used++
	}
	return used > lim
}

func (x *Explorer) explore(prefix []int, level int) {
	if x.Truncated {
		return
	}
	if !x.Deadline.IsZero() && time.Now().After(x.Deadline) {
		x.Truncated, x.TruncReason = true, "internal deadline"
		return
	}
	if x.MaxExec > 0 && x.Executions >= x.MaxExec {
		x.Truncated, x.TruncReason = true, "execution cap"
		return
	}
	mine := true
	if level < x.ShardLevel {
		mine = x.Shard == 0
	} else if level == x.ShardLevel {
		x.jobs++
		if int(x.jobs%int64(x.Shards)) != x.Shard {
			return
		}
	}
	c := &Chooser{Prefix: prefix}
	out := x.Exec(c)
	if c.Diverged != "" {
		if len(x.Diverged) < 5 {
			x.Diverged = append(x.Diverged, fmt.Sprintf("%s prefix=%v", c.Diverged, prefix))
		}
		return
	}
	if mine && out != nil {
		x.account(c, out)
	}
	points := c.Points
	if len(points) > x.MaxPoints {
		x.MaxPoints = len(points)
	}
	choices := c.Choices()
	for i := len(prefix); i < len(points); i++ {
		p := points[i]
		for alt := 1; alt < p.N; alt++ {
			if x.overBudget(points, i, Point{Class: p.Class, Cost: p.Cost}) {
				break
			}
			np := make([]int, i+1)
			copy(np, choices[:i])
			np[i] = alt
			x.explore(np, level+1)
			if x.Truncated {
				return
			}
		}
	}
}

func (x *Explorer) account(c *Chooser, out *Outcome) {
	if out.Skip {
		x.Skipped++
		return
	}
	x.Executions++
	x.Transitions += int64(out.Transitions)
	if out.NonTrivial {
		x.NonTrivial++
	}
	x.States[out.StateHash] = struct{}{}
	x.Outcomes[out.ObsHash] = struct{}{}
	for k, v := range out.Extra {
		x.Extra[k] += v
	}
	if len(x.Samples) < 6 && out.Sample != "" && (x.Executions%97 == 1 || len(x.Samples) == 0) {
		x.Samples = append(x.Samples, out.Sample)
	}
	for _, v := range out.Viols {
		n := x.sigSeen[v.Sig]
		x.sigSeen[v.Sig] = n + 1
		if n == 0 && len(x.Found) < 5000 {
			x.Found = append(x.Found, Found{Viol: v, Choices: c.Choices(), Sample: out.Sample, Profile: x.Profile})
		}
	}
	if x.MaxTraces > 0 && len(x.Traces) < x.MaxTraces && out.Log != "" &&
		!c.HasClass(ClassRand) && !c.HasClass(ClassSched) && !c.HasClass(ClassFault) && len(out.Viols) == 0 {
		// spread the selection over the run
		if x.Executions%7 == 1 || x.Executions < 50 {
			x.Traces = append(x.Traces, Trace{Profile: x.Profile, Choices: c.Choices(), Log: out.Log})
		}
	}
}

// SigCounts returns how often each violation signature was seen.
func (x *Explorer) SigCounts() map[string]int { return x.sigSeen }
