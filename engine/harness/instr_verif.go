//go:build verif

package harness

import (
	"github.com/cbehopkins/gkvlite"
	"github.com/cbehopkins/gkvlite/zzverif/vsched"
)

// Instrumented is true in the overlay build.
const Instrumented = true

type ExecResult = vsched.Result

type SchedChooser = vsched.Chooser

// RunExec runs main under the controlled scheduler.
func RunExec(ch SchedChooser, preemptive bool, stepLimit int64, main func()) ExecResult {
	gkvlite.VerifReset()
	vsched.MapOrderDesc = false
	return vsched.Run(vsched.Config{Chooser: ch, Preemptive: preemptive, StepLimit: stepLimit}, main)
}

func Choose(n int, class int) int                       { return vsched.Choose(n, class) }
func YieldIO()                                          { vsched.Yield(vsched.KIO, nil) }
func YieldCallback()                                    { vsched.Yield(vsched.KCallback, nil) }
func BeginOp(label string)                              { vsched.BeginOp(label) }
func Go(f func())                                       { vsched.Go(f) }
func Tick() int64                                       { return vsched.Tick() }
func ThreadID() int                                     { return vsched.ThreadID() }
func SetEventHook(h func(kind string, obj interface{})) { vsched.EventHook = h }

// BlockUntil parks the calling harness thread until cond holds.
func BlockUntil(cond func() bool) { vsched.BlockUntil(vsched.KUser, nil, cond) }

type WalkNode = gkvlite.VerifNode
type RootInfo = gkvlite.VerifRootInfo

func Walk(c *gkvlite.Collection) []WalkNode       { return gkvlite.VerifWalk(c) }
func Root(c *gkvlite.Collection) (RootInfo, bool) { return gkvlite.VerifRoot(c) }
func FreeNodeSet() (map[uintptr]bool, bool)       { return gkvlite.VerifFreeNodeSet() }
func FreeCounts() (int, int, int)                 { return gkvlite.VerifFreeCounts() }
func StoreSize(s *gkvlite.Store) int64            { return gkvlite.VerifStoreSize(s) }
func RootID(c *gkvlite.Collection) uintptr        { return gkvlite.VerifRootID(c) }

const (
	ClassOp    = vsched.ClassOp
	ClassSched = vsched.ClassSched
	ClassRand  = vsched.ClassRand
	ClassFault = vsched.ClassFault
	ClassCrash = vsched.ClassCrash
)

// SetMapOrderDesc selects the order in which the instrumented library iterates
// over its string-keyed maps (Go leaves it undefined).
func SetMapOrderDesc(desc bool) { vsched.MapOrderDesc = desc }

// Quiesce lets every other thread run until it finishes or blocks.
func Quiesce() { vsched.Quiesce() }

// LiveLibThreads counts library goroutines that have not exited.
func LiveLibThreads() int { return vsched.LiveLibThreads() }

// Notes returns the lock-discipline findings of an execution (T7).
func Notes(r ExecResult) []string { return r.Notes }

// Reset empties the library's global free lists (between two stores of one execution).
func Reset() { gkvlite.VerifReset() }
