package harness

import (
	"bytes"
	"fmt"
	"strings"

	"github.com/cbehopkins/gkvlite"
)

// Visit APIs.
const (
	APIAscend = iota
	APIDescend
	APIAscendEx
	APIDescendEx
	APIIterAscend
	APIIterDescend
)

var apiNames = []string{"Ascend", "Descend", "AscendEx", "DescendEx", "IterAscend", "IterDescend"}

type depthObs struct {
	name  string
	label string
	key   string
	depth uint64
}

// ExpectRange returns the keys a visit from target must deliver.
func ExpectRange(mc *RColl, target []byte, descending bool) [][]byte {
	fn := Cmps[orderOf(mc.Cmp)]
	keys := mc.SortedKeys()
	var out [][]byte
	if !descending {
		for _, k := range keys {
			if fn(k, target) >= 0 {
				out = append(out, k)
			}
		}
		return out
	}
	for i := len(keys) - 1; i >= 0; i-- {
		if fn(keys[i], target) < 0 {
			out = append(out, keys[i])
		}
	}
	return out
}

// Visit runs one range visit through the chosen API and compares the delivered
// sequence with the model: exactly the requested range, in order, right key /
// priority / value, stopping as soon as the visitor returns false (stop = index
// of the callback that returns false, -1 = never).
func (w *World) Visit(name string, api int, target []byte, withValue bool, stop int) {
	w.visitOn(w.St, w.Colls[name], w.M.Cur.Colls[name], name, api, target, withValue, stop)
}

func (w *World) visitOn(st *gkvlite.Store, c *gkvlite.Collection, mc *RColl, name string, api int, target []byte, withValue bool, stop int) {
	tname := vstr(target)
	label := fmt.Sprintf("%s(%s,%s,%v,stop%d)", apiNames[api], name, tname, withValue, stop)
	w.begin(label, true, !withValue)
	w.Trans++
	desc := api == APIDescend || api == APIDescendEx || api == APIIterDescend
	want := ExpectRange(mc, target, desc)
	if stop >= 0 && stop < len(want) {
		want = want[:stop+1]
	}
	var got [][]byte
	bad := ""
	check := func(it *gkvlite.Item) {
		if it == nil {
			bad = "nil item"
			return
		}
		got = append(got, append([]byte{}, it.Key...))
		ri, ok := mc.Items[string(it.Key)]
		switch {
		case !ok:
			bad = fmt.Sprintf("key %q is not in the collection", it.Key)
		case it.Priority != ri.Prio:
			bad = fmt.Sprintf("key %q has priority %d, model %d", it.Key, it.Priority, ri.Prio)
		case withValue && it.Val == nil:
			bad = fmt.Sprintf("key %q delivered without its value", it.Key)
		case it.Val != nil && !bytes.Equal(it.Val, ri.Val):
			bad = fmt.Sprintf("key %q has value %s, model %s", it.Key, vstr(it.Val), vstr(ri.Val))
		}
		if w.RC != nil && w.RC.Counts[it] <= 0 {
			w.Fail("refcount", "visited-item-nonpositive", "item %q passed to a visitor by %s has count %d", it.Key, label, w.RC.Counts[it])
		}
	}
	n := 0
	var err error
	switch api {
	case APIAscend, APIDescend:
		v := func(it *gkvlite.Item) bool {
			check(it)
			n++
			return n-1 != stop
		}
		if api == APIAscend {
			err = c.VisitItemsAscend(target, withValue, v)
		} else {
			err = c.VisitItemsDescend(target, withValue, v)
		}
	case APIAscendEx, APIDescendEx:
		v := func(it *gkvlite.Item, depth uint64) bool {
			check(it)
			if it != nil {
				w.depthObs = append(w.depthObs, depthObs{name, label, string(it.Key), depth})
			}
			n++
			return n-1 != stop
		}
		if api == APIAscendEx {
			err = c.VisitItemsAscendEx(target, withValue, v)
		} else {
			err = c.VisitItemsDescendEx(target, withValue, v)
		}
	default:
		var it gkvlite.ItemIterator
		if api == APIIterAscend {
			it = c.IterateAscend(target, withValue)
		} else {
			it = c.IterateDescend(target, withValue)
		}
		for it.Next() {
			check(it.Result())
			n++
			if n-1 == stop {
				break
			}
		}
		it.Close()
		if it.Next() {
			bad = "Next() returned true after Close()"
		}
		err = it.Err()
	}
	if w.faulted(label, err, true, false) {
		return
	}
	if err != nil {
		w.Fail("visit", "error", "%s returned error %v", label, err)
		return
	}
	same := len(got) == len(want)
	for i := 0; same && i < len(want); i++ {
		same = bytes.Equal(got[i], want[i])
	}
	if !same {
		w.Fail("visit", "sequence-"+apiNames[api], "%s delivered %s, the model says %s", label, keyList(got), keyList(want))
	} else if bad != "" {
		w.Fail("visit", "item-"+apiNames[api], "%s: %s", label, bad)
	}
	w.logf("%s=%s", label, keyList(got))
}

func keyList(ks [][]byte) string {
	var s []string
	for _, k := range ks {
		s = append(s, trunc(string(k)))
	}
	return "[" + strings.Join(s, " ") + "]"
}

// CheckVisitDepths compares every depth reported by an Ex visit with the
// item's true depth in the tree (taken from the side-effect-free walk after
// all nodes have been loaded; the shape does not depend on the cache state).
func (w *World) CheckVisitDepths() {
	if !Instrumented || len(w.depthObs) == 0 || w.Closed {
		return
	}
	byColl := map[string]map[string]int{}
	for _, o := range w.depthObs {
		if _, ok := byColl[o.name]; ok {
			continue
		}
		c := w.Colls[o.name]
		mc := w.M.Cur.Colls[o.name]
		if c == nil || mc == nil {
			continue
		}
		w.begin("LoadAll("+o.name+")", true, false)
		keys := mc.SortedKeys()
		c.VisitItemsAscend(LowTarget(mc.Cmp, keys), false, func(*gkvlite.Item) bool { return true })
		m := map[string]int{}
		for _, n := range Walk(c) {
			var key []byte
			if n.ItemCached {
				key = n.Key
			} else if n.ItemHasLoc && w.File != nil {
				d := &decoder{data: w.File.Data, limit: int64(len(w.File.Data))}
				if it, err := d.item(n.ItemOff, n.ItemLen); err == nil {
					key = it.Key
				}
			}
			if key != nil {
				m[string(key)] = n.Depth
			}
		}
		byColl[o.name] = m
	}
	for _, o := range w.depthObs {
		m := byColl[o.name]
		if m == nil {
			continue
		}
		if d, ok := m[o.key]; ok && uint64(d) != o.depth {
			w.Fail("visit", "depth", "%s reported depth %d for key %q, its true depth in the tree is %d", o.label, o.depth, o.key, d)
			return
		}
	}
}

// Exist applies Collection.Exist.
func (w *World) Exist(name string, key []byte) {
	c := w.Colls[name]
	label := fmt.Sprintf("Exist(%s,%s)", name, vstr(key))
	w.begin(label, true, true)
	w.Trans++
	ex := c.Exist(key)
	if w.faulted(label, nil, false, false) {
		return
	}
	_, present := w.M.Cur.Colls[name].Items[string(key)]
	if ex != present {
		w.Fail("model", "exist-wrong", "%s = %v, model %v", label, ex, present)
	}
	w.logf("%s=%v", label, ex)
}

// MinMax applies MinItem / MaxItem.
func (w *World) MinMax(name string, max bool, withValue bool) {
	c := w.Colls[name]
	mc := w.M.Cur.Colls[name]
	label := fmt.Sprintf("Min(%s,%v)", name, withValue)
	if max {
		label = fmt.Sprintf("Max(%s,%v)", name, withValue)
	}
	w.begin(label, true, !withValue)
	w.Trans++
	var it *gkvlite.Item
	var err error
	if max {
		it, err = c.MaxItem(withValue)
	} else {
		it, err = c.MinItem(withValue)
	}
	if w.faulted(label, err, true, it != nil) {
		return
	}
	if err != nil {
		w.Fail("model", "minmax-error", "%s returned error %v", label, err)
		return
	}
	keys := mc.SortedKeys()
	if len(keys) == 0 {
		if it != nil {
			w.Fail("model", "minmax-phantom", "%s returned %q on an empty collection", label, it.Key)
		}
		w.logf("%s=nil", label)
		return
	}
	want := keys[0]
	if max {
		want = keys[len(keys)-1]
	}
	w.checkItem(label, it, want, mc.Items[string(want)], true, withValue)
	if it != nil {
		w.logf("%s=%q", label, it.Key)
	}
	w.release(w.St, c, it)
}

// LenOp applies Collection.Len.
func (w *World) LenOp(name string) {
	c := w.Colls[name]
	label := fmt.Sprintf("Len(%s)", name)
	w.begin(label, true, true)
	w.Trans++
	l, err := c.Len()
	if w.faulted(label, err, true, false) {
		return
	}
	n, _ := w.M.Cur.Colls[name].Totals()
	if err != nil || uint64(l) != n {
		w.Fail("model", "len-wrong", "%s = (%d,%v), model %d", label, l, err, n)
	}
	w.logf("%s=%d", label, l)
}

// Totals applies GetTotals.
func (w *World) Totals(name string) {
	c := w.Colls[name]
	label := fmt.Sprintf("Totals(%s)", name)
	w.begin(label, true, true)
	w.Trans++
	n, b, err := c.GetTotals()
	if w.faulted(label, err, true, err != nil && (n != 0 || b != 0)) {
		return
	}
	wn, wb := w.M.Cur.Colls[name].Totals()
	b = w.normBytes(b, wb, n)
	if err != nil || n != wn || b != wb {
		w.Fail("model", "totals", "%s = (%d,%d,%v), model (%d,%d)", label, n, b, err, wn, wb)
	}
	w.logf("%s=%d,%d", label, n, b)
}

// ReopenAfterFailedRevert re-opens the file after a FlushRevert that failed:
// the durable states already in the file must be intact, i.e. the file's last
// root record (independent decoder) is the newest durable state or the one below.
func (w *World) ReopenAfterFailedRevert() {
	w.NeedReopen = false
	r := FindLastRoot(w.File.Data, int64(len(w.File.Data)))
	top := w.M.Durable()
	var below *RState
	if len(w.M.Flushed) >= 2 {
		below = w.M.Flushed[len(w.M.Flushed)-2]
	} else {
		below = NewRState()
	}
	end := int64(0)
	if r != nil {
		end = r.End
	}
	switch {
	case end == top.End:
	case end == below.End:
		w.M.Flushed = w.M.Flushed[:len(w.M.Flushed)-1]
	default:
		w.Fail("fault", "revert-damaged-durable", "after a failed FlushRevert the file's last root record ends at %d; the durable states end at %d and %d", end, top.End, below.End)
		return
	}
	w.Closed = true // the old handle is abandoned, not closed
	w.Reopen(false)
}

// GetItemRaw is GetItem for concurrent scenarios: it checks the C15 hand-over
// condition and (key-only) that no value came along, but compares the result
// with the model only for presence, since a concurrent mutator may be running.
func (w *World) GetItemRaw(name string, key []byte, withValue bool) {
	c := w.Colls[name]
	label := fmt.Sprintf("GetItemRaw(%s,%s,%v)", name, vstr(key), withValue)
	w.begin(label, true, !withValue)
	it, err := c.GetItem(key, withValue)
	if err != nil {
		w.Fail("concurrent", "lookup-error", "%s returned error %v", label, err)
		return
	}
	if it != nil {
		if w.RC != nil && (w.RC.Counts[it] <= 0 || w.RC.Dead[it]) {
			w.Fail("refcount", "returned-item-released", "%s handed the caller an item whose count is %d (released before: %v)", label, w.RC.Counts[it], w.RC.Dead[it])
		}
		if !bytes.Equal(it.Key, key) {
			w.Fail("concurrent", "lookup-wrong-key", "%s returned key %q", label, it.Key)
		}
		if withValue && it.Val == nil {
			w.Fail("concurrent", "lookup-nil-value", "%s returned no value", label)
		}
		if w.RC != nil {
			w.St.ItemDecRef(c, it)
		}
	}
	w.logf("%s=%v", label, it != nil)
}

// VisitMutating runs one range visit through api whose first callback runs
// mutate (the caller is the mutating goroutine); the delivered sequence must be
// the range of pinned, the version current when the visit started.
func (w *World) VisitMutating(name string, api int, target []byte, withValue bool, pinned *RColl, mutate func()) {
	c := w.Colls[name]
	label := fmt.Sprintf("%s(%s,%s,%v){mutate}", apiNames[api], name, vstr(target), withValue)
	w.begin(label, false, false)
	w.Trans++
	desc := api == APIDescend || api == APIDescendEx || api == APIIterDescend
	want := ExpectRange(pinned, target, desc)
	var got [][]byte
	first := true
	cb := func(it *gkvlite.Item) bool {
		got = append(got, append([]byte{}, it.Key...))
		if first {
			first = false
			mutate()
			w.begin(label, false, false)
		}
		return true
	}
	var err error
	switch api {
	case APIAscend:
		err = c.VisitItemsAscend(target, withValue, cb)
	case APIDescend:
		err = c.VisitItemsDescend(target, withValue, cb)
	case APIAscendEx:
		err = c.VisitItemsAscendEx(target, withValue, func(it *gkvlite.Item, d uint64) bool { return cb(it) })
	case APIDescendEx:
		err = c.VisitItemsDescendEx(target, withValue, func(it *gkvlite.Item, d uint64) bool { return cb(it) })
	default:
		var it gkvlite.ItemIterator
		if api == APIIterAscend {
			it = c.IterateAscend(target, withValue)
		} else {
			it = c.IterateDescend(target, withValue)
		}
		for it.Next() {
			cb(it.Result())
		}
		it.Close()
		err = it.Err()
		Quiesce()
	}
	if err != nil {
		w.Fail("visit", "mutating-visitor-error", "%s returned error %v", label, err)
		return
	}
	same := len(got) == len(want)
	for i := 0; same && i < len(want); i++ {
		same = bytes.Equal(got[i], want[i])
	}
	if !same {
		w.Fail("visit", "mutating-visitor-sequence", "%s delivered %s, the version pinned at its start has %s", label, keyList(got), keyList(want))
	}
	w.logf("%s=%s", label, keyList(got))
}

// RawRead is a reader operation for concurrent reference-counting scenarios:
// it does not consult the model (a concurrent mutator may be changing it) and
// checks only what holds for every version: the items handed out are live under
// the counting contract when delivered and still after the visitor has been
// descheduled, keys belong to universe and come in order, a value starts with
// its key (the scenarios write such values) and scrubbed bytes never show.
// kind: get:<key>:<v|k>, min, max, asc, desc, asc-keys, desc-keys, asc-stop0,
// iter, iter-stop0.
func (w *World) RawRead(name, kind string, universe [][]byte) {
	c := w.Colls[name]
	label := "Raw[" + kind + "](" + name + ")"
	w.begin(label, true, false)
	inU := func(k []byte) bool {
		for _, u := range universe {
			if bytes.Equal(u, k) {
				return true
			}
		}
		return false
	}
	checkItem := func(it *gkvlite.Item, withValue bool) []byte {
		if it == nil {
			w.Fail("concurrent", "raw-nil-item", "%s delivered a nil item", label)
			return nil
		}
		if !w.ItemLive(it) {
			w.Fail("refcount", "delivered-item-released", "%s delivered an item whose count is %d (released before: %v)", label, w.RC.Counts[it], w.RC.Dead[it])
		}
		k := append([]byte{}, it.Key...)
		if !inU(k) {
			w.Fail("refcount", "delivered-key-garbage", "%s delivered key %q, which was never stored", label, k)
		}
		if withValue && it.Val == nil {
			w.Fail("concurrent", "raw-no-value", "%s delivered key %q without its value", label, k)
		}
		if it.Val != nil && (len(it.Val) == 0 || len(k) == 0 || it.Val[0] != k[0]) {
			w.Fail("refcount", "delivered-value-garbage", "%s delivered key %q with value %s", label, k, vstr(it.Val))
		}
		return k
	}
	recheck := func(it *gkvlite.Item, k []byte) {
		if it == nil {
			return
		}
		if !w.ItemLive(it) || !bytes.Equal(it.Key, k) {
			w.Fail("refcount", "item-released-while-held", "%s: item %q was released (count %d, key now %q) while the caller still held it", label, k, w.RC.Counts[it], it.Key)
		}
	}
	var n int
	var err error
	switch {
	case strings.HasPrefix(kind, "get:"):
		parts := strings.Split(kind, ":")
		withValue := parts[2] == "v"
		var it *gkvlite.Item
		it, err = c.GetItem([]byte(parts[1]), withValue)
		if it != nil {
			k := checkItem(it, withValue)
			if !bytes.Equal(k, []byte(parts[1])) {
				w.Fail("concurrent", "lookup-wrong-key", "%s returned key %q", label, k)
			}
			YieldCallback()
			recheck(it, k)
			w.release(w.St, c, it)
			n = 1
		}
	case kind == "min" || kind == "max":
		var it *gkvlite.Item
		if kind == "min" {
			it, err = c.MinItem(true)
		} else {
			it, err = c.MaxItem(true)
		}
		if it != nil {
			k := checkItem(it, true)
			YieldCallback()
			recheck(it, k)
			w.release(w.St, c, it)
			n = 1
		}
	default:
		desc := strings.HasPrefix(kind, "desc")
		withValue := !strings.Contains(kind, "keys")
		stop0 := strings.Contains(kind, "stop0")
		var prev []byte
		visit := func(it *gkvlite.Item) bool {
			k := checkItem(it, withValue)
			if prev != nil && k != nil && ((!desc && bytes.Compare(prev, k) >= 0) || (desc && bytes.Compare(prev, k) <= 0)) {
				w.Fail("concurrent", "raw-order", "%s delivered %q after %q", label, k, prev)
			}
			prev = k
			n++
			YieldCallback()
			recheck(it, k)
			return !stop0
		}
		switch {
		case strings.HasPrefix(kind, "iter"):
			it := c.IterateAscend([]byte{}, true)
			for it.Next() {
				if !visit(it.Result()) {
					break
				}
			}
			it.Close()
			err = it.Err()
		case desc:
			err = c.VisitItemsDescend([]byte("\xff\xff"), withValue, visit)
		default:
			err = c.VisitItemsAscend([]byte{}, withValue, visit)
		}
	}
	if err != nil {
		w.Fail("concurrent", "raw-error", "%s returned error %v", label, err)
	}
	w.logf("%s=%d", label, n)
}
