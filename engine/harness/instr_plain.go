//go:build !verif

package harness

import (
	"fmt"
	"runtime/debug"
	"sync"
	"sync/atomic"
	"time"

	"github.com/cbehopkins/gkvlite"
)

// Instrumented is false in the pristine build (no overlay, no tag): the same
// harness bodies run on the untouched library through its public API only.
const Instrumented = false

type ExecResult struct {
	Verdict   string
	Msg       string
	Stack     string
	Points    int64
	Switches  int64
	Threads   int
	LibParked int
}

type SchedChooser interface {
	Choose(n int, class int) int
	ChooseSched(n int, runningEnabled bool) int
}

var plainChooser SchedChooser

var (
	plainMu     sync.Mutex
	plainPanics []string
	plainTick   int64
)

// RunExec on the pristine build runs main directly: goroutines are real and
// free-running (this is the validation pass, not the exploration).
func RunExec(ch SchedChooser, preemptive bool, stepLimit int64, main func()) (res ExecResult) {
	plainChooser = ch
	plainMu.Lock()
	plainPanics = nil
	plainMu.Unlock()
	defer func() {
		plainChooser = nil
		if r := recover(); r != nil {
			res.Verdict = "PANIC"
			res.Msg = fmt.Sprint(r)
			res.Stack = string(debug.Stack())
		}
		plainMu.Lock()
		if res.Verdict == "" && len(plainPanics) > 0 {
			res.Verdict = "PANIC"
			res.Msg = plainPanics[0]
		}
		plainMu.Unlock()
	}()
	main()
	return
}

func Choose(n int, class int) int {
	if plainChooser == nil || n <= 1 {
		return 0
	}
	return plainChooser.Choose(n, class)
}
func YieldIO()             {}
func YieldCallback()       {}
func BeginOp(label string) {}
func Go(f func()) {
	go func() {
		defer func() {
			if r := recover(); r != nil {
				plainMu.Lock()
				plainPanics = append(plainPanics, fmt.Sprint(r)+" "+string(debug.Stack()))
				plainMu.Unlock()
			}
		}()
		f()
	}()
}
func Tick() int64                                       { return atomic.AddInt64(&plainTick, 1) }
func ThreadID() int                                     { return 0 }
func SetEventHook(h func(kind string, obj interface{})) {}
func BlockUntil(cond func() bool) {
	for i := 0; !cond() && i < 5000000; i++ {
		time.Sleep(20 * time.Microsecond)
	}
}

type WalkNode struct {
	ID                                uintptr
	Depth                             int
	Key                               []byte
	Priority                          int32
	ItemCached, ValCached, ItemHasLoc bool
	ItemOff                           int64
	ItemLen                           uint32
	NodeHasLoc                        bool
	NumNodes, NumBytes                uint64
	LeftCached, RightCached           bool
	LeftEmpty, RightEmpty             bool
	Marked, MarkOwn, Free             bool
	ItemPtr                           uintptr
}
type RootInfo struct {
	ID           uintptr
	Refs         int64
	Chained      bool
	ReclaimLater int
	RootCached   bool
	RootHasLoc   bool
	RootOff      int64
}

func Walk(c *gkvlite.Collection) []WalkNode       { return nil }
func Root(c *gkvlite.Collection) (RootInfo, bool) { return RootInfo{}, false }
func FreeNodeSet() (map[uintptr]bool, bool)       { return nil, true }
func FreeCounts() (int, int, int)                 { return 0, 0, 0 }
func StoreSize(s *gkvlite.Store) int64            { return -1 }
func RootID(c *gkvlite.Collection) uintptr        { return 0 }

const (
	ClassOp    = 0
	ClassSched = 1
	ClassRand  = 2
	ClassFault = 3
	ClassCrash = 4
)

func Quiesce()            { time.Sleep(2 * time.Millisecond) }
func LiveLibThreads() int { return 0 }

func SetMapOrderDesc(desc bool) {}

func Notes(r ExecResult) []string { return nil }

// Reset is a no-op on the pristine build (no introspection file).
func Reset() {}
