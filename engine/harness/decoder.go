package harness

import (
	"bytes"
	"encoding/binary"
	"encoding/json"
	"fmt"
	"sort"
)

// This file is an independent reader of the gkvlite version-4 file layout,
// written from the layout description in property C14 and importing nothing
// from gkvlite:
//
//	item record : u32 length | u32 keyLength | u32 valLength | i32 priority | key | value
//	              (length = 16 + keyLength + valLength, all big-endian)
//	node record : 3 x (u64 offset | u32 length)  for item, left, right
//	              | u64 numNodes | u64 numBytes               (52 bytes)
//	root record : MagicBeg MagicBeg | u32 version(4) | u32 length | JSON
//	              | i64 offset | u32 length | MagicEnd MagicEnd
//	              JSON = {"<name>": {"o": offset, "l": length}, ...}; an empty
//	              tree is {"o":0,"l":0}.

var decMagicBeg = []byte("0g1t2r")
var decMagicEnd = []byte("3e4a5p")

const decRootTrailer = 8 + 4 + 12
const decRootMin = 12 + 4 + 4 + decRootTrailer

// DItem is a decoded item record.
type DItem struct {
	Key, Val       []byte
	Prio           int32
	Off            int64
	Len            int
	ValOff, ValLen int64
	Depth          int
}

// DNode is a decoded node record.
type DNode struct {
	Off                int64
	NumNodes, NumBytes uint64
	ItemOff            int64
	Left, Right        int64 // offsets, 0 = none
	Depth              int
}

// DColl is a decoded collection.
type DColl struct {
	Name    string
	RootOff int64
	Items   []DItem // in-order
	Nodes   []DNode
	// IgnoreBytes: CheckAggregates compares node counts only (byte totals are
	// unspecified under a value-transforming callback pair)
	IgnoreBytes bool
}

// DRoot is a decoded root record.
type DRoot struct {
	Off, End int64
	JSON     []byte
	Colls    map[string]*DColl
}

// DecodeRootAt checks whether a self-consistent root record ends exactly at
// end; it does not follow the tree.
func DecodeRootAt(data []byte, end int64) (*DRoot, error) {
	if end < decRootMin || end > int64(len(data)) {
		return nil, fmt.Errorf("no room for a root record ending at %d", end)
	}
	tr := data[end-decRootTrailer : end]
	if !bytes.Equal(tr[12:18], decMagicEnd) || !bytes.Equal(tr[18:24], decMagicEnd) {
		return nil, fmt.Errorf("no end magic at %d", end)
	}
	off := int64(binary.BigEndian.Uint64(tr[0:8]))
	length := binary.BigEndian.Uint32(tr[8:12])
	if off < 0 || off+int64(length) != end || int64(length) < decRootMin {
		return nil, fmt.Errorf("trailer offset/length inconsistent at %d", end)
	}
	rec := data[off:end]
	if !bytes.Equal(rec[0:6], decMagicBeg) || !bytes.Equal(rec[6:12], decMagicBeg) {
		return nil, fmt.Errorf("no begin magic at %d", off)
	}
	if v := binary.BigEndian.Uint32(rec[12:16]); v != 4 {
		return nil, fmt.Errorf("version %d", v)
	}
	if l0 := binary.BigEndian.Uint32(rec[16:20]); l0 != length {
		return nil, fmt.Errorf("leading length %d != trailing %d", l0, length)
	}
	js := rec[20 : len(rec)-decRootTrailer]
	var m map[string]struct {
		O int64  `json:"o"`
		L uint32 `json:"l"`
	}
	if err := json.Unmarshal(js, &m); err != nil {
		return nil, fmt.Errorf("root JSON: %v", err)
	}
	r := &DRoot{Off: off, End: end, JSON: js, Colls: map[string]*DColl{}}
	for n, p := range m {
		if (p.O == 0) != (p.L == 0) {
			return nil, fmt.Errorf("root %q: half-empty location", n)
		}
		if p.L != 0 && p.L != 52 {
			return nil, fmt.Errorf("root %q: node length %d", n, p.L)
		}
		r.Colls[n] = &DColl{Name: n, RootOff: p.O}
	}
	return r, nil
}

// FindLastRoot scans backwards from limit for the last self-consistent root
// record.
func FindLastRoot(data []byte, limit int64) *DRoot {
	if limit > int64(len(data)) {
		limit = int64(len(data))
	}
	for end := limit; end >= decRootMin; end-- {
		if r, err := DecodeRootAt(data, end); err == nil {
			return r
		}
	}
	return nil
}

// AllRoots returns every self-consistent root record in the file, in file order.
func AllRoots(data []byte) []*DRoot {
	var out []*DRoot
	for end := int64(decRootMin); end <= int64(len(data)); end++ {
		if r, err := DecodeRootAt(data, end); err == nil {
			out = append(out, r)
		}
	}
	return out
}

type decoder struct {
	data  []byte
	limit int64
}

func (d *decoder) item(off int64, length uint32) (DItem, error) {
	var it DItem
	if off < 0 || off+int64(length) > d.limit || length < 16 {
		return it, fmt.Errorf("item location %d+%d out of range", off, length)
	}
	b := d.data[off : off+int64(length)]
	l := binary.BigEndian.Uint32(b[0:4])
	kl := binary.BigEndian.Uint32(b[4:8])
	vl := binary.BigEndian.Uint32(b[8:12])
	pr := int32(binary.BigEndian.Uint32(b[12:16]))
	if l != length || uint64(16)+uint64(kl)+uint64(vl) != uint64(l) {
		return it, fmt.Errorf("item at %d: lengths not self-consistent (len %d klen %d vlen %d ploc %d)", off, l, kl, vl, length)
	}
	it.Key = b[16 : 16+kl]
	it.Val = b[16+kl : 16+kl+vl]
	it.Prio = pr
	it.Off = off
	it.Len = int(length)
	it.ValOff = off + 16 + int64(kl)
	it.ValLen = int64(vl)
	return it, nil
}

func (d *decoder) tree(c *DColl, off int64, depth int, parentOff int64) error {
	if off == 0 {
		return nil
	}
	if depth > 100000 {
		return fmt.Errorf("tree too deep")
	}
	if off < 0 || off+52 > d.limit {
		return fmt.Errorf("node location %d out of range", off)
	}
	if parentOff != 0 && off >= parentOff {
		return fmt.Errorf("node at %d is not below its parent at %d", off, parentOff)
	}
	b := d.data[off : off+52]
	io := int64(binary.BigEndian.Uint64(b[0:8]))
	il := binary.BigEndian.Uint32(b[8:12])
	lo := int64(binary.BigEndian.Uint64(b[12:20]))
	ll := binary.BigEndian.Uint32(b[20:24])
	ro := int64(binary.BigEndian.Uint64(b[24:32]))
	rl := binary.BigEndian.Uint32(b[32:36])
	nn := binary.BigEndian.Uint64(b[36:44])
	nb := binary.BigEndian.Uint64(b[44:52])
	if (lo == 0) != (ll == 0) || (ro == 0) != (rl == 0) || (ll != 0 && ll != 52) || (rl != 0 && rl != 52) {
		return fmt.Errorf("node at %d: bad child location", off)
	}
	if io >= off {
		return fmt.Errorf("node at %d: item at %d is not below the node", off, io)
	}
	if err := d.tree(c, lo, depth+1, off); err != nil {
		return err
	}
	it, err := d.item(io, il)
	if err != nil {
		return fmt.Errorf("node at %d: %v", off, err)
	}
	it.Depth = depth
	c.Items = append(c.Items, it)
	c.Nodes = append(c.Nodes, DNode{Off: off, NumNodes: nn, NumBytes: nb, ItemOff: io, Left: lo, Right: ro, Depth: depth})
	return d.tree(c, ro, depth+1, off)
}

// DecodeTrees follows every collection of the root record.
func DecodeTrees(data []byte, r *DRoot) error {
	d := &decoder{data: data, limit: r.Off}
	names := make([]string, 0, len(r.Colls))
	for n := range r.Colls {
		names = append(names, n)
	}
	sort.Strings(names)
	for _, n := range names {
		c := r.Colls[n]
		c.Items, c.Nodes = nil, nil
		if err := d.tree(c, c.RootOff, 0, 0); err != nil {
			return fmt.Errorf("collection %q: %v", n, err)
		}
	}
	return nil
}

// CheckAggregates verifies numNodes/numBytes of every node record of c.
func (c *DColl) CheckAggregates() error {
	byOff := map[int64]*DNode{}
	for i := range c.Nodes {
		byOff[c.Nodes[i].Off] = &c.Nodes[i]
	}
	itemBytes := map[int64]uint64{}
	for _, it := range c.Items {
		itemBytes[it.Off] = uint64(len(it.Key) + len(it.Val))
	}
	var rec func(off int64) (uint64, uint64, error)
	rec = func(off int64) (uint64, uint64, error) {
		if off == 0 {
			return 0, 0, nil
		}
		n := byOff[off]
		if n == nil {
			return 0, 0, fmt.Errorf("missing node %d", off)
		}
		ln, lb, err := rec(n.Left)
		if err != nil {
			return 0, 0, err
		}
		rn, rb, err := rec(n.Right)
		if err != nil {
			return 0, 0, err
		}
		cn, cb := ln+rn+1, lb+rb+itemBytes[n.ItemOff]
		if cn != n.NumNodes || (!c.IgnoreBytes && cb != n.NumBytes) {
			return 0, 0, fmt.Errorf("node record at %d: persisted aggregates (%d,%d) != recomputed (%d,%d)", off, n.NumNodes, n.NumBytes, cn, cb)
		}
		return cn, cb, nil
	}
	_, _, err := rec(c.RootOff)
	return err
}

// ToRState converts a decoded root into a model state (comparators unknown:
// "bytes").
func (r *DRoot) ToRState() *RState {
	s := NewRState()
	for n, c := range r.Colls {
		rc := &RColl{Cmp: "bytes", Items: map[string]RItem{}}
		for _, it := range c.Items {
			rc.Items[string(it.Key)] = RItem{Val: append([]byte{}, it.Val...), Prio: it.Prio}
		}
		s.Colls[n] = rc
	}
	s.End = r.End
	return s
}

// DecodeLast decodes the last root at or below limit and its trees; returns
// (nil, nil) when the file holds no root record.
func DecodeLast(data []byte, limit int64) (*DRoot, error) {
	r := FindLastRoot(data, limit)
	if r == nil {
		return nil, nil
	}
	if err := DecodeTrees(data, r); err != nil {
		return r, err
	}
	return r, nil
}
