package harness

import (
	"bytes"
	"fmt"
	"io"
	"os"
	"runtime"
	"sort"
	"strings"

	"github.com/cbehopkins/gkvlite"
)

// Viol is one oracle failure.
type Viol struct {
	Oracle string // short tag of the oracle that fired
	Sig    string // normalised signature (no addresses, no offsets)
	Msg    string
}

// Callback configuration bits (C17).
const (
	CBBeforeWrite = 1 << iota
	CBAfterRead
	CBItemAlloc
	CBAddRef
	CBDecRef
	CBValLength
	CBValWrite
	CBValRead
	CBKeyCompare
	CBAll = 1<<9 - 1
	// CBFramed (not part of the C17 subsets, it is not neutral): BeforeItemWrite
	// returns a copy of the item whose value carries a two-byte trailer (length
	// and checksum), AfterItemRead verifies and strips it - the documented use
	// of the pair (compression, checksums).  What is stored differs in length
	// from what is in memory.
	CBFramed = 1 << 9
	// CBValFramed (not neutral either): the ItemValLength / ItemValWrite /
	// ItemValRead triple stores each value with the same two-byte trailer:
	// ItemValLength answers len(Val)+2, ItemValWrite writes the value and then
	// the trailer (two file calls), ItemValRead reads the stored bytes, verifies
	// and strips the trailer.  Here the library's byte totals are specified
	// (key length + ItemValLength, in memory and on file alike) and compared.
	CBValFramed = 1 << 10
)

// AnyFramed: what is stored differs from what is in memory.
const AnyFramed = CBFramed | CBValFramed

func valFramedLength(c *gkvlite.Collection, i *gkvlite.Item) int { return len(i.Val) + 2 }

func valFramedWrite(c *gkvlite.Collection, i *gkvlite.Item, wr io.WriterAt, offset int64) error {
	if len(i.Val) > 0 {
		if _, err := wr.WriteAt(i.Val, offset); err != nil {
			return err
		}
	}
	_, err := wr.WriteAt([]byte{byte(len(i.Val)), frameSum(i.Val)}, offset+int64(len(i.Val)))
	return err
}

func valFramedRead(c *gkvlite.Collection, i *gkvlite.Item, r io.ReaderAt, offset int64, valLength uint32) error {
	buf := make([]byte, valLength)
	if _, err := r.ReadAt(buf, offset); err != nil {
		return err
	}
	body, err := Unframe(buf)
	if err != nil {
		return err
	}
	i.Val = body
	return nil
}

// imageCallbacks adds to cb what a fresh store needs to read (and, if write is
// set, to extend) an image written under the World's transforming callbacks.
func (w *World) imageCallbacks(cb *gkvlite.StoreCallbacks, write bool) {
	if w.CBMask&CBFramed != 0 {
		cb.AfterItemRead = unframeAfterRead
		if write {
			cb.BeforeItemWrite = func(c *gkvlite.Collection, i *gkvlite.Item) (*gkvlite.Item, error) { return FrameItem(i), nil }
		}
	}
	if w.CBMask&CBValFramed != 0 {
		cb.ItemValLength, cb.ItemValRead = valFramedLength, valFramedRead
		if write {
			cb.ItemValWrite = valFramedWrite
		}
	}
}

// normBytes maps a byte total reported by the library to what the model counts.
func (w *World) normBytes(b, wb, n uint64) uint64 {
	if w.CBMask&CBFramed != 0 {
		return wb // byte totals mix stored and in-memory lengths under a transforming pair: not specified, not compared
	}
	if w.CBMask&CBValFramed != 0 && b >= 2*n {
		return b - 2*n // every item counts its two trailer bytes
	}
	return b
}

// FrameItem returns the copy of i that is written to the file under CBFramed.
func FrameItem(i *gkvlite.Item) *gkvlite.Item {
	if i == nil || i.Val == nil {
		return i
	}
	v := make([]byte, 0, len(i.Val)+2)
	v = append(v, i.Val...)
	v = append(v, byte(len(i.Val)), frameSum(i.Val))
	return &gkvlite.Item{Key: i.Key, Val: v, Priority: i.Priority, Transient: i.Transient}
}

func frameSum(v []byte) byte {
	s := byte(0x5a)
	for _, b := range v {
		s = s*31 + b
	}
	return s
}

// Unframe verifies and strips the trailer.
func Unframe(v []byte) ([]byte, error) {
	n := len(v)
	if n < 2 {
		return nil, fmt.Errorf("framed value too short (%d bytes)", n)
	}
	body := v[:n-2]
	if v[n-2] != byte(len(body)) || v[n-1] != frameSum(body) {
		return nil, fmt.Errorf("framed value damaged: %q", v)
	}
	return body, nil
}

// Monitors that can be switched on per profile.
type Monitors struct {
	Durable   bool // C02: clone of the image reopens to the top of the flush stack
	Append    bool // C09: append-only / read paths never write
	Lazy      bool // C19: key-only operations never read value bytes
	Recycle   bool // C10: no freed node reachable; churn before Observe
	RefCount  bool // C15: counting callbacks
	Invariant bool // C13: BST / aggregates / heap / canonical depth
	Format    bool // C14: independent decoder accepts every flush
	Tiling    bool // C09/C14: writes of a Flush tile the appended region
}

// World is the state of one sequential execution: the real store(s), the
// reference model and the monitors.
type World struct {
	Mon    Monitors
	CBMask int
	Keys   [][]byte // key universe for Observe
	NoFile bool     // memory-only store

	File  *MemFile
	St    *gkvlite.Store
	Colls map[string]*gkvlite.Collection
	M     *RefStore
	Snaps []*Snap
	Iters []*OpenIter

	Closed bool // original store closed
	Viols  []Viol
	Hist   []string
	Log    []string
	Trans  int

	RC *RefCounter

	curLabel              string
	readOnlyOp            bool
	keyOnlyOp             bool
	valRanges             [][2]int64
	valRangesOK           bool
	revertOK              bool
	flushSizeBefore       int64
	sawLowerPrioOverwrite map[string]bool
	pendingGetRefs        int
	heldVals              []heldVal
	faults0               int
	FaultOps              []string // labels of the calls during which an injected fault fired
	NeedReopen            bool     // a failed FlushRevert: contents unspecified until re-opened
	OpenFailed            bool
	ObserveRevertedSnaps  bool               // C08: a snapshot is compared with its own flush stack right after its FlushRevert
	BytesOrderOnly        bool               // the alphabet never creates a collection with a custom order
	NoRoots               bool               // the file holds no root record and NewStore said so
	DstFault              func(dst *MemFile) // arms fault injection on a CopyTo destination
	depthObs              []depthObs
	Aux                   *World // second store of the same process (C10)
}

// Snap is an open snapshot with the state it must keep showing.
type Snap struct {
	St       *gkvlite.Store
	Exp      *RefStore
	Closed   bool
	Reverted bool // its own FlushRevert was called: contents no longer specified by C04
	Colls    map[string]*gkvlite.Collection
}

// OpenIter is an iterator left open across letters.
type OpenIter struct {
	It     gkvlite.ItemIterator
	Name   string
	Exp    [][]byte // remaining keys it must deliver
	ExpV   map[string]RItem
	Closed bool
}

func (w *World) Fail(oracle, sig, format string, a ...interface{}) {
	if len(w.Viols) < 8 {
		w.Viols = append(w.Viols, Viol{Oracle: oracle, Sig: oracle + ":" + sig, Msg: fmt.Sprintf(format, a...) + " after [" + strings.Join(w.Hist, " ") + "]"})
	}
}

func (w *World) logf(format string, a ...interface{}) {
	w.Log = append(w.Log, fmt.Sprintf(format, a...))
}

// ---------------------------------------------------------------- callbacks

// RefCounter implements the accounting of C15.
type RefCounter struct {
	Counts             map[*gkvlite.Item]int
	Neg                []string
	Allocs, Adds, Decs int
	// Dead holds items whose count has dropped to zero after having been
	// positive: the application may recycle them (a slab allocator would), so
	// any later use by gkvlite is a use after release.  To make such a use
	// observable the key and value of a dead item are overwritten.
	Dead     map[*gkvlite.Item]bool
	Poisoned int
}

var rcTraceOn = os.Getenv("VERIF_RCTRACE") != ""

// rcTrace prints one counting event with its call site (debugging aid).
func rcTrace(ev string, i *gkvlite.Item, n int) {
	if !rcTraceOn {
		return
	}
	pcs := make([]uintptr, 8)
	k := runtime.Callers(3, pcs)
	fr := runtime.CallersFrames(pcs[:k])
	var where []string
	for {
		f, more := fr.Next()
		if strings.Contains(f.Function, "gkvlite.") {
			where = append(where, fmt.Sprintf("%s:%d", f.Function[strings.LastIndex(f.Function, ".")+1:], f.Line))
		}
		if !more || len(where) >= 4 {
			break
		}
	}
	fmt.Fprintf(os.Stderr, "rc T%d %-6s %p key=%q val=%q -> %d  %s\n", ThreadID(), ev, i, i.Key, i.Val, n, strings.Join(where, " < "))
}

// die is called when an item's count reaches zero.
func (rc *RefCounter) die(i *gkvlite.Item) {
	rc.Dead[i] = true
	rc.Poisoned++
	for k := range i.Key {
		i.Key[k] = 0xfe
	}
	if i.Val != nil {
		for k := range i.Val { // a pool reuses the buffer: whoever still holds the slice sees it change
			i.Val[k] = 0xfe
		}
		i.Val = []byte("\xfe<released item>\xfe")
	}
	i.Priority = -12345
}

func unframeAfterRead(c *gkvlite.Collection, i *gkvlite.Item) (*gkvlite.Item, error) {
	if i == nil || i.Val == nil {
		return i, nil
	}
	body, err := Unframe(i.Val)
	if err != nil {
		return i, err
	}
	i.Val = body
	return i, nil
}

func (w *World) callbacks() gkvlite.StoreCallbacks {
	var cb gkvlite.StoreCallbacks
	m := w.CBMask
	if w.Mon.RefCount {
		m |= CBItemAlloc | CBAddRef | CBDecRef
		if w.RC == nil {
			w.RC = &RefCounter{Counts: map[*gkvlite.Item]int{}, Dead: map[*gkvlite.Item]bool{}}
		}
	}
	if all := CBItemAlloc | CBAddRef | CBDecRef; m&all == all && w.RC == nil {
		// a complete reference-counting configuration: run the recycling pool
		// (items whose count reaches zero are scrubbed)
		w.RC = &RefCounter{Counts: map[*gkvlite.Item]int{}, Dead: map[*gkvlite.Item]bool{}}
	}
	rc := w.RC
	if m&CBBeforeWrite != 0 {
		cb.BeforeItemWrite = func(c *gkvlite.Collection, i *gkvlite.Item) (*gkvlite.Item, error) { return i, nil }
	}
	if m&CBAfterRead != 0 {
		cb.AfterItemRead = func(c *gkvlite.Collection, i *gkvlite.Item) (*gkvlite.Item, error) { return i, nil }
	}
	if m&CBFramed != 0 {
		cb.BeforeItemWrite = func(c *gkvlite.Collection, i *gkvlite.Item) (*gkvlite.Item, error) { return FrameItem(i), nil }
		cb.AfterItemRead = unframeAfterRead
	}
	if m&CBValFramed != 0 {
		cb.ItemValLength, cb.ItemValWrite, cb.ItemValRead = valFramedLength, valFramedWrite, valFramedRead
	}
	if m&CBItemAlloc != 0 {
		cb.ItemAlloc = func(c *gkvlite.Collection, keyLength uint32) *gkvlite.Item {
			it := &gkvlite.Item{Key: make([]byte, keyLength)}
			if rc != nil {
				rc.Counts[it] = 1
				rc.Allocs++
				rcTrace("alloc", it, 1)
			}
			return it
		}
	}
	if m&CBAddRef != 0 {
		cb.ItemAddRef = func(c *gkvlite.Collection, i *gkvlite.Item) {
			if rc != nil {
				if rc.Dead[i] && len(rc.Neg) < 4 {
					rc.Neg = append(rc.Neg, fmt.Sprintf("a reference was taken on an item during %s after its count had dropped to zero (use after release)", w.curLabel))
				}
				rc.Counts[i]++
				rc.Adds++
				rcTrace("addref", i, rc.Counts[i])
			}
		}
	}
	if m&CBDecRef != 0 {
		cb.ItemDecRef = func(c *gkvlite.Collection, i *gkvlite.Item) {
			if rc != nil {
				rc.Counts[i]--
				rc.Decs++
				rcTrace("decref", i, rc.Counts[i])
				if rc.Counts[i] < 0 && len(rc.Neg) < 4 {
					rc.Neg = append(rc.Neg, fmt.Sprintf("count of item %q dropped to %d during %s", i.Key, rc.Counts[i], w.curLabel))
				}
				if rc.Counts[i] == 0 {
					rc.die(i)
				}
			}
		}
	}
	if m&CBValLength != 0 {
		cb.ItemValLength = func(c *gkvlite.Collection, i *gkvlite.Item) int { return len(i.Val) }
	}
	if m&CBValWrite != 0 {
		cb.ItemValWrite = func(c *gkvlite.Collection, i *gkvlite.Item, wr io.WriterAt, offset int64) error {
			h := len(i.Val) / 2
			if _, err := wr.WriteAt(i.Val[:h], offset); err != nil {
				return err
			}
			_, err := wr.WriteAt(i.Val[h:], offset+int64(h))
			return err
		}
	}
	if m&CBValRead != 0 {
		cb.ItemValRead = func(c *gkvlite.Collection, i *gkvlite.Item, r io.ReaderAt, offset int64, valLength uint32) error {
			i.Val = make([]byte, valLength)
			h := int(valLength) / 2
			if _, err := r.ReadAt(i.Val[:h], offset); err != nil {
				return err
			}
			_, err := r.ReadAt(i.Val[h:], offset+int64(h))
			return err
		}
	}
	// A comparator must be supplied on load (re-open and FlushRevert) whenever a
	// durable collection uses a non-default order, and the callbacks are fixed
	// when the store is opened, i.e. before such a collection may exist.  The
	// callback is therefore installed unless the profile promises bytes order
	// only (then the C17 bit alone decides).
	need := m&CBKeyCompare != 0 || !w.BytesOrderOnly
	if need {
		cb.KeyCompareForCollection = func(name string) gkvlite.KeyCompare {
			for i := len(w.M.Flushed) - 1; i >= 0; i-- {
				if c, ok := w.M.Flushed[i].Colls[name]; ok {
					if orderOf(c.Cmp) == "bytes" {
						return nil // "use the default", as the API documents
					}
					return Cmps[orderOf(c.Cmp)]
				}
			}
			return nil
		}
	}
	return cb
}

// ItemLive reports whether an item may be used under the reference-counting
// contract (positive count, never released); true when no counting is active.
func (w *World) ItemLive(it *gkvlite.Item) bool {
	if w.RC == nil || it == nil {
		return true
	}
	return w.RC.Counts[it] > 0 && !w.RC.Dead[it]
}

// release drops the reference the API handed to the caller.
func (w *World) release(st *gkvlite.Store, c *gkvlite.Collection, it *gkvlite.Item) {
	if it == nil || w.RC == nil {
		return
	}
	if w.RC.Counts[it] <= 0 {
		w.Fail("refcount", "returned-item-nonpositive", "item %q handed to the caller by %s has count %d", it.Key, w.curLabel, w.RC.Counts[it])
	}
	st.ItemDecRef(c, it)
}

// ---------------------------------------------------------------- lifecycle

// NewWorld opens a fresh store (file-backed unless noFile).
func NewWorld(mon Monitors, cbMask int, keys [][]byte, noFile bool) *World {
	w := &World{Mon: mon, CBMask: cbMask, Keys: keys, NoFile: noFile, M: NewRefStore(),
		Colls: map[string]*gkvlite.Collection{}, sawLowerPrioOverwrite: map[string]bool{}}
	if !noFile {
		w.File = &MemFile{}
		w.File.OnCall = w.onIO
	}
	w.open("Open")
	return w
}

func (w *World) begin(label string, readOnly, keyOnly bool) {
	w.curLabel = label
	w.readOnlyOp = readOnly
	w.keyOnlyOp = keyOnly
	w.valRangesOK = false
	if w.File != nil {
		w.File.Label = label
		w.faults0 = w.File.FaultsHit
	}
	BeginOp(label)
}

func (w *World) open(label string) {
	w.begin(label, true, false)
	var st *gkvlite.Store
	var err error
	if w.NoFile {
		// "no file" is spelt either as nil or as a nil pointer of a file type
		// (persistence switched off): both are memory-only stores
		if Choose(2, ClassOp) == 1 {
			var none *MemFile
			w.Hist = append(w.Hist, "(typed-nil file)")
			st, err = gkvlite.NewStoreEx(none, w.callbacks())
		} else {
			st, err = gkvlite.NewStoreEx(nil, w.callbacks())
		}
	} else {
		if w.Mon.Lazy {
			w.File.Log = w.File.Log[:0]
			w.File.LogOn = true
		}
		st, err = gkvlite.NewStoreEx(w.File, w.callbacks())
		if w.Mon.Lazy {
			w.File.LogOn = false
			w.checkLazyOpen(label, st)
		}
	}
	if w.faulted(label, err, true, err != nil && st != nil) {
		w.Closed = true
		w.OpenFailed = true
		return
	}
	if err != nil && !w.NoFile && len(w.M.Flushed) == 0 && len(w.File.Data) > 0 && strings.Contains(err.Error(), "couldn't find roots") {
		// documented outcome for a file that holds bytes but no root record
		// (leftovers of a Flush that never completed): nothing to continue with
		w.logf("%s=no-roots", label)
		w.Closed = true
		w.NoRoots = true
		return
	}
	if err != nil || st == nil {
		w.Fail("model", "open-failed", "%s failed: %v", label, err)
		w.Closed = true
		return
	}
	w.OpenFailed = false
	w.St = st
	w.Closed = false
	w.Colls = map[string]*gkvlite.Collection{}
	for _, n := range st.GetCollectionNames() {
		w.Colls[n] = st.GetCollection(n)
	}
	w.logf("%s=ok", label)
}

// ---------------------------------------------------------------- I/O monitor

func (w *World) onIO(c *IOCall) {
	if c.Fail {
		return
	}
	switch c.Op {
	case "W", "T":
		if !w.Mon.Append {
			return
		}
		d := w.M.Durable().End
		if w.readOnlyOp {
			w.Fail("readonly-write", c.Op+"-during-"+opKind(w.curLabel), "%s issued %s at %d (len %d) but must never write", w.curLabel, c.Op, c.Off, c.Len)
			return
		}
		if c.Op == "W" && c.Off < d {
			w.Fail("append", "write-below-durable", "%s wrote at %d < end of last durable root %d", w.curLabel, c.Off, d)
		}
		if c.Op == "T" {
			if !w.revertOK {
				w.Fail("append", "truncate-outside-revert", "%s truncated the file to %d", w.curLabel, c.Off)
			} else if c.Off != 0 {
				if _, err := DecodeRootAt(w.File.Data, c.Off); err != nil {
					w.Fail("append", "truncate-not-at-root", "%s truncated to %d which is not the end of a root record", w.curLabel, c.Off)
				}
			}
		}
	case "R":
		if !w.Mon.Lazy || !w.keyOnlyOp || c.Len == 0 {
			return
		}
		if !w.valRangesOK {
			w.valRanges = valueRanges(w.File.Data)
			w.valRangesOK = true
		}
		for _, r := range w.valRanges {
			if c.Off < r[0]+r[1] && r[0] < c.Off+int64(c.Len) {
				w.Fail("lazy", "value-read-in-"+opKind(w.curLabel), "%s read [%d,%d) which overlaps the value bytes [%d,%d) of an item", w.curLabel, c.Off, c.Off+int64(c.Len), r[0], r[0]+r[1])
				return
			}
		}
	}
}

func opKind(label string) string {
	if i := strings.IndexByte(label, '('); i >= 0 {
		return label[:i]
	}
	return label
}

// valueRanges returns the byte ranges of all non-empty values of all item
// records reachable from any root record of the image (independent decoder).
func valueRanges(data []byte) [][2]int64 {
	seen := map[int64]bool{}
	var out [][2]int64
	for _, r := range AllRoots(data) {
		if err := DecodeTrees(data, r); err != nil {
			continue
		}
		for _, c := range r.Colls {
			for _, it := range c.Items {
				if it.ValLen > 0 && !seen[it.ValOff] {
					seen[it.ValOff] = true
					out = append(out, [2]int64{it.ValOff, it.ValLen})
				}
			}
		}
	}
	return out
}

// ---------------------------------------------------------------- mutations

func vstr(b []byte) string {
	if b == nil {
		return "nil"
	}
	if len(b) > 12 {
		return fmt.Sprintf("#%d/%x", len(b), hashBytes(b))
	}
	return fmt.Sprintf("%q", b)
}

func errs(err error) string {
	if err == nil {
		return "nil"
	}
	return "err"
}

func validItem(key, val []byte, prio int32) bool {
	return key != nil && len(key) > 0 && len(key) <= 0xffff && val != nil && prio >= 0
}

// SetItem applies SetItem(key,prio,val) to collection name and checks the result.
func (w *World) SetItem(name string, key []byte, prio int32, val []byte) {
	c := w.Colls[name]
	label := fmt.Sprintf("Set(%s,%s,%d,%s)", name, vstr(key), prio, vstr(val))
	w.begin(label, false, true)
	w.Trans++
	it := &gkvlite.Item{Priority: prio}
	if key != nil {
		it.Key = append([]byte{}, key...)
	}
	if val != nil {
		it.Val = append([]byte{}, val...)
	}
	err := c.SetItem(it)
	if w.faulted(label, err, true, false) {
		return
	}
	w.logf("%s=%s", label, errs(err))
	mc := w.M.Cur.Colls[name]
	if !validItem(key, val, prio) {
		if err == nil {
			w.Fail("model", "invalid-item-accepted", "%s accepted an invalid item", label)
			if mc != nil && key != nil {
				mc.Items[string(key)] = RItem{Val: val, Prio: prio}
			}
		}
		return
	}
	if err != nil {
		w.Fail("model", "set-error", "%s returned error %v", label, err)
		return
	}
	if old, ok := mc.Items[string(key)]; ok && prio < old.Prio {
		w.sawLowerPrioOverwrite[name] = true
	}
	mc.Items[string(key)] = RItem{Val: append([]byte{}, val...), Prio: prio}
}

// SetRand applies Collection.Set (random priority from the explorer's domain).
func (w *World) SetRand(name string, key, val []byte) {
	c := w.Colls[name]
	label := fmt.Sprintf("SetR(%s,%s,%s)", name, vstr(key), vstr(val))
	w.begin(label, false, true)
	w.Trans++
	err := c.Set(append([]byte{}, key...), append([]byte{}, val...))
	w.logf("%s=%s", label, errs(err))
	if err != nil {
		w.Fail("model", "set-error", "%s returned error %v", label, err)
		return
	}
	// priority unknown: read it back (key-only) for the model
	w.begin(label+"/readback", true, true)
	it, err := c.GetItem(key, false)
	if err != nil || it == nil {
		w.Fail("model", "set-lost", "%s: key not found right after Set (err %v)", label, err)
		return
	}
	mc := w.M.Cur.Colls[name]
	if old, ok := mc.Items[string(key)]; ok && it.Priority < old.Prio {
		w.sawLowerPrioOverwrite[name] = true
	}
	mc.Items[string(key)] = RItem{Val: append([]byte{}, val...), Prio: it.Priority}
	w.release(w.St, c, it)
}

func (w *World) Delete(name string, key []byte) {
	c := w.Colls[name]
	label := fmt.Sprintf("Del(%s,%s)", name, vstr(key))
	w.begin(label, false, true)
	w.Trans++
	was, err := c.Delete(key)
	if w.faulted(label, err, true, was) {
		return
	}
	w.logf("%s=%v,%s", label, was, errs(err))
	mc := w.M.Cur.Colls[name]
	_, present := mc.Items[string(key)]
	if err != nil {
		w.Fail("model", "delete-error", "%s returned error %v", label, err)
		return
	}
	if was != present {
		w.Fail("model", "delete-result", "%s reported %v but the key was present=%v", label, was, present)
	}
	delete(mc.Items, string(key))
}

// ---------------------------------------------------------------- lookups

func (w *World) checkItem(label string, it *gkvlite.Item, key []byte, exp RItem, present bool, withValue bool) {
	if !present {
		if it != nil {
			w.Fail("model", "lookup-phantom", "%s returned an item for an absent key", label)
		}
		return
	}
	if it == nil {
		w.Fail("model", "lookup-missing", "%s returned nil for a present key", label)
		return
	}
	if !bytes.Equal(it.Key, key) {
		w.Fail("model", "lookup-wrong-key", "%s returned key %q", label, it.Key)
	}
	if it.Priority != exp.Prio {
		w.Fail("model", "lookup-wrong-priority", "%s returned priority %d, model %d", label, it.Priority, exp.Prio)
	}
	if withValue && it.Val == nil {
		w.Fail("model", "lookup-nil-value", "%s returned a nil value for a present key", label)
	}
	if it.Val != nil && !bytes.Equal(it.Val, exp.Val) {
		w.Fail("model", "lookup-wrong-value", "%s returned value %s, model %s", label, vstr(it.Val), vstr(exp.Val))
	}
}

func (w *World) GetItem(name string, key []byte, withValue bool) {
	w.getItemOn(w.St, w.Colls[name], w.M.Cur.Colls[name], name, key, withValue, true)
}

func (w *World) getItemOn(st *gkvlite.Store, c *gkvlite.Collection, mc *RColl, name string, key []byte, withValue bool, log bool) {
	label := fmt.Sprintf("GetItem(%s,%s,%v)", name, vstr(key), withValue)
	w.begin(label, true, !withValue)
	w.Trans++
	it, err := c.GetItem(key, withValue)
	if w.faulted(label, err, true, it != nil) {
		return
	}
	if err != nil {
		w.Fail("model", "lookup-error", "%s returned error %v", label, err)
		return
	}
	exp, present := mc.Items[string(key)]
	w.checkItem(label, it, key, exp, present, withValue)
	if log {
		if it == nil {
			w.logf("%s=nil", label)
		} else {
			v := "-"
			if withValue {
				v = vstr(it.Val)
			}
			w.logf("%s=%q,%d,%s", label, it.Key, it.Priority, v)
		}
	}
	w.release(st, c, it)
}

func (w *World) Get(name string, key []byte) {
	c := w.Colls[name]
	label := fmt.Sprintf("Get(%s,%s)", name, vstr(key))
	w.begin(label, true, false)
	w.Trans++
	v, err := c.Get(key)
	if w.faulted(label, err, true, v != nil) {
		return
	}
	w.logf("%s=%s,%s", label, vstr(v), errs(err))
	if err != nil {
		w.Fail("model", "lookup-error", "%s returned error %v", label, err)
		return
	}
	exp, present := w.M.Cur.Colls[name].Items[string(key)]
	if present != (v != nil) {
		w.Fail("model", "get-presence", "%s returned %s but present=%v", label, vstr(v), present)
	} else if present && !bytes.Equal(v, exp.Val) {
		w.Fail("model", "lookup-wrong-value", "%s returned %s, model %s", label, vstr(v), vstr(exp.Val))
	}
	// Get does not hand the item back, so the reference GetItem took on it
	// cannot be released by the caller: C15 accounts for it separately.
	if w.RC != nil && v != nil {
		w.pendingGetRefs++
		// ... and the caller may keep the value for as long as it likes
		w.heldVals = append(w.heldVals, heldVal{label, v, append([]byte{}, v...)})
	}
}

type heldVal struct {
	label string
	got   []byte // the slice Get returned
	want  []byte // its contents at that time
}

// CheckHeldVals: values returned by Get under the counting callbacks must
// stay intact (the reference Get took for the caller is never released).
func (w *World) CheckHeldVals() {
	for _, h := range w.heldVals {
		if !bytes.Equal(h.got, h.want) {
			w.Fail("refcount", "get-value-released", "the value returned by %s (%s) has since been released and overwritten: now %s", h.label, vstr(h.want), vstr(h.got))
			return
		}
	}
}

// ---------------------------------------------------------------- store-level letters

func (w *World) Flush() {
	label := "Flush"
	w.begin(label, false, false)
	w.Trans++
	mark := 0
	if w.File != nil {
		w.File.LogOn = w.Mon.Tiling || w.Mon.Format
		w.File.Log = w.File.Log[:0]
		mark = len(w.File.Data)
	}
	_ = mark
	before := StoreSize(w.St)
	nf := len(w.FaultOps)
	err := w.St.Flush()
	if w.faulted(label, err, true, false) {
		w.File.LogOn = false
		return
	}
	swallowed := len(w.FaultOps) != nf
	w.logf("%s=%s", label, errs(err))
	if w.NoFile {
		if err == nil {
			w.Fail("model", "memory-flush-accepted", "Flush on a memory-only store returned nil")
		}
		return
	}
	w.File.LogOn = false
	if err != nil {
		w.Fail("model", "flush-error", "Flush returned error %v", err)
		return
	}
	after := StoreSize(w.St)
	if w.Mon.Tiling && Instrumented {
		pos := before
		for _, c := range w.File.Log {
			if c.Op != "W" {
				continue
			}
			if c.Off != pos {
				w.Fail("append", "flush-not-tiling", "Flush wrote at %d, expected the next free offset %d (gap or overlap)", c.Off, pos)
				break
			}
			pos += int64(c.Len)
		}
		if pos != after {
			w.Fail("append", "flush-size-mismatch", "Flush writes end at %d but the store size is %d", pos, after)
		}
	}
	// the end offset of the new root record, found by the independent decoder
	r := FindLastRoot(w.File.Data, int64(len(w.File.Data)))
	end := int64(len(w.File.Data))
	if r != nil {
		end = r.End
	}
	if Instrumented {
		end = after
	}
	w.M.Flush(end)
	if w.Mon.Format {
		w.checkFormat(w.File.Log, before, after)
	}
	if swallowed {
		// Flush said nil although a file call failed: what it claims to have
		// made durable is checked at once (a later Flush may repair the file)
		w.CheckDurable()
	}
}

// checkFormat: the write log of a Flush consists of item records, node
// records and one root record, and the independent decoder reconstructs the
// flushed state.
func (w *World) checkFormat(log []IOCall, before, after int64) {
	data := w.File.Data
	r, err := DecodeRootAt(data, after)
	if !Instrumented {
		r = FindLastRoot(data, int64(len(data)))
		err = nil
		if r == nil {
			err = fmt.Errorf("no root record found")
		}
	}
	if err != nil {
		w.Fail("format", "root-record-rejected", "after Flush the independent decoder rejects the root record: %v", err)
		return
	}
	if err := DecodeTrees(data, r); err != nil {
		w.Fail("format", "tree-rejected", "after Flush the independent decoder rejects the tree: %v", err)
		return
	}
	got := r.ToRState()
	want := w.M.Durable()
	if w.CBMask&AnyFramed != 0 {
		for n, c := range got.Colls {
			for k, it := range c.Items {
				body, err := Unframe(it.Val)
				if err != nil {
					w.Fail("format", "framed-value-damaged", "collection %q key %q: the stored value is not what BeforeItemWrite returned: %v", n, k, err)
					return
				}
				it.Val = body
				c.Items[k] = it
			}
		}
	}
	if d := diffStates(got, want, true); d != "" {
		w.Fail("format", "decoded-state-differs", "independent decoder reconstructs a different state: %s", d)
	}
	for n, c := range r.Colls {
		c.IgnoreBytes = w.CBMask&CBFramed != 0
		if err := c.CheckAggregates(); err != nil {
			w.Fail("format", "persisted-aggregates", "collection %q: %v", n, err)
		}
		// in-order keys ascending under the model's comparator
		if mc := want.Colls[n]; mc != nil {
			fn := Cmps[orderOf(mc.Cmp)]
			for i := 1; i < len(c.Items); i++ {
				if fn(c.Items[i-1].Key, c.Items[i].Key) >= 0 {
					w.Fail("format", "persisted-order", "collection %q: persisted tree is not a search tree", n)
					break
				}
			}
		}
	}
	// the region appended by this Flush is tiled exactly by item records and
	// node records reachable from the new root, followed by the root record
	if Instrumented && w.Mon.Tiling {
		type rec struct{ off, n int64 }
		seen := map[int64]bool{}
		var recs []rec
		for _, c := range r.Colls {
			for _, it := range c.Items {
				if it.Off >= before && !seen[it.Off] && it.Len > 0 {
					seen[it.Off] = true
					recs = append(recs, rec{it.Off, int64(it.Len)})
				}
			}
			for _, nd := range c.Nodes {
				if nd.Off >= before && !seen[nd.Off] {
					seen[nd.Off] = true
					recs = append(recs, rec{nd.Off, 52})
				}
			}
		}
		recs = append(recs, rec{r.Off, r.End - r.Off})
		sort.Slice(recs, func(i, j int) bool { return recs[i].off < recs[j].off })
		pos := before
		for _, x := range recs {
			if x.off != pos {
				w.Fail("format", "flush-region-not-tiled", "the bytes appended by Flush [%d,%d) are not exactly the item, node and root records reachable from the new root: expected a record at %d, next one is at %d", before, after, pos, x.off)
				break
			}
			pos += x.n
		}
		if pos != after && len(w.Viols) == 0 {
			w.Fail("format", "flush-region-not-tiled", "records reachable from the new root end at %d, the store size is %d", pos, after)
		}
	}
}

// diffStates compares contents (names, keys, values, priorities); comparators
// are ignored when ignoreCmp.
func diffStates(got, want *RState, ignoreCmp bool) string {
	gn, wn := got.Names(), want.Names()
	if strings.Join(gn, "\x00") != strings.Join(wn, "\x00") {
		return fmt.Sprintf("collection names %q, expected %q", gn, wn)
	}
	for _, n := range wn {
		g, x := got.Colls[n], want.Colls[n]
		if len(g.Items) != len(x.Items) {
			return fmt.Sprintf("collection %q has %d items, expected %d", n, len(g.Items), len(x.Items))
		}
		for k, xi := range x.Items {
			gi, ok := g.Items[k]
			if !ok {
				return fmt.Sprintf("collection %q misses key %q", n, trunc(k))
			}
			if gi.Prio != xi.Prio || !bytes.Equal(gi.Val, xi.Val) {
				return fmt.Sprintf("collection %q key %q: (%s,%d), expected (%s,%d)", n, trunc(k), vstr(gi.Val), gi.Prio, vstr(xi.Val), xi.Prio)
			}
		}
	}
	return ""
}

func (w *World) Evict(name string) {
	c := w.Colls[name]
	label := fmt.Sprintf("Evict(%s)", name)
	w.begin(label, true, true)
	w.Trans++
	n := c.EvictSomeItems()
	if w.faulted(label, nil, false, false) {
		return
	}
	cnt, _ := w.M.Cur.Colls[name].Totals()
	if n > cnt {
		w.Fail("model", "evict-count", "%s evicted %d items of %d", label, n, cnt)
	}
	w.logf("%s", label)
}

// Reopen closes the store (when closeOld) and opens the same file again.
func (w *World) Reopen(closeOld bool) {
	label := "Reopen"
	if !closeOld {
		label = "ReopenNoClose"
	}
	w.Trans++
	if closeOld && !w.Closed {
		w.begin("Close", true, false)
		w.closeIters()
		w.St.Close()
	}
	w.M.Reopen()
	w.open(label)
}

func (w *World) closeIters() {
	for _, it := range w.Iters {
		if !it.Closed {
			it.It.Close()
			it.Closed = true
		}
	}
}

func (w *World) SetCollection(name string, cmp string) {
	label := fmt.Sprintf("SetColl(%q,%s)", name, cmp)
	w.begin(label, true, false)
	w.Trans++
	var fn gkvlite.KeyCompare
	if cmp != "" && cmp != "nil" {
		fn = Cmps[cmp]
	}
	c := w.St.SetCollection(name, fn)
	w.logf("%s", label)
	if c == nil {
		w.Fail("model", "setcollection-nil", "%s returned nil", label)
		return
	}
	w.Colls[name] = c
	if mc, ok := w.M.Cur.Colls[name]; ok {
		mc.Cmp = cmp
	} else {
		w.M.Cur.Colls[name] = &RColl{Cmp: cmp, Items: map[string]RItem{}}
	}
}

func (w *World) RemoveCollection(name string) {
	label := fmt.Sprintf("RemoveColl(%q)", name)
	w.begin(label, true, false)
	w.Trans++
	w.St.RemoveCollection(name)
	w.logf("%s", label)
	delete(w.Colls, name)
	delete(w.M.Cur.Colls, name)
}

// Revert applies FlushRevert to the writable store.
func (w *World) Revert() {
	label := "Revert"
	w.begin(label, false, false)
	w.Trans++
	w.revertOK = true
	w.closeIters()
	err := w.St.FlushRevert()
	w.revertOK = false
	if w.faulted(label, err, true, false) {
		w.NeedReopen = true
		return
	}
	w.logf("%s=%s", label, errs(err))
	if w.NoFile {
		if err == nil {
			w.Fail("model", "memory-revert-accepted", "FlushRevert on a memory-only store returned nil")
		}
		return
	}
	if err != nil {
		w.Fail("model", "revert-error", "FlushRevert returned error %v", err)
		return
	}
	w.M.Revert()
	// The README documents that FlushRevert of the original invalidates open
	// snapshots (the file is truncated below them): their contents are no
	// longer specified, they can only be closed.
	for _, sn := range w.Snaps {
		if !sn.Closed {
			sn.Reverted = true
		}
	}
	want := w.M.Durable().End
	if int64(len(w.File.Data)) != want {
		w.Fail("revert", "file-length", "after FlushRevert the file is %d bytes long, expected %d (end of the previous flush's root record)", len(w.File.Data), want)
	}
	w.Colls = map[string]*gkvlite.Collection{}
	for _, n := range w.St.GetCollectionNames() {
		w.Colls[n] = w.St.GetCollection(n)
	}
}

// CloseStore closes the original store; no further letters on it are enabled.
func (w *World) CloseStore() {
	w.begin("CloseStore", true, false)
	w.Trans++
	w.closeIters()
	w.St.Close()
	w.Closed = true
	w.logf("CloseStore")
}

// ---------------------------------------------------------------- snapshots

func (w *World) Snapshot(src int) {
	var st *gkvlite.Store
	var exp *RefStore
	label := "Snap(orig)"
	if src < 0 {
		st, exp = w.St, w.M
	} else {
		st, exp = w.Snaps[src].St, w.Snaps[src].Exp
		label = fmt.Sprintf("Snap(s%d)", src)
	}
	w.begin(label, true, false)
	w.Trans++
	sn := st.Snapshot()
	w.logf("%s", label)
	if sn == nil {
		w.Fail("model", "snapshot-nil", "%s returned nil", label)
		return
	}
	w.Snaps = append(w.Snaps, &Snap{St: sn, Exp: exp.Clone()})
}

func (w *World) CloseSnap(i int) {
	label := fmt.Sprintf("CloseSnap(s%d)", i)
	w.begin(label, true, false)
	w.Trans++
	w.Snaps[i].St.Close()
	w.Snaps[i].Closed = true
	w.logf("%s", label)
}

func (w *World) RevertSnap(i int) {
	label := fmt.Sprintf("RevertSnap(s%d)", i)
	w.begin(label, true, false)
	w.Trans++
	err := w.Snaps[i].St.FlushRevert()
	w.logf("%s=%s", label, errs(err))
	if err != nil {
		w.Fail("model", "revert-error", "%s returned error %v", label, err)
		return
	}
	w.Snaps[i].Exp.Revert()
	w.Snaps[i].Reverted = true
	if w.ObserveRevertedSnaps {
		// C08: FlushRevert returns a (read-only) store to the state of the Flush
		// before the most recent one it knows
		w.observe(label+"/after", w.Snaps[i].St, w.Snaps[i].Exp.Cur, "revert", true)
	}
}

// SnapRefused checks that a snapshot refuses Set, Delete and Flush.
func (w *World) SnapRefused(i int) {
	label := fmt.Sprintf("SnapRefused(s%d)", i)
	w.begin(label, true, false)
	w.Trans++
	sn := w.Snaps[i]
	if err := sn.St.Flush(); err == nil {
		w.Fail("snapshot", "flush-accepted", "%s: Flush on a snapshot returned nil", label)
	}
	for _, n := range sn.St.GetCollectionNames() {
		c := sn.St.GetCollection(n)
		if err := c.SetItem(&gkvlite.Item{Key: []byte("a"), Val: []byte("q"), Priority: 1}); err == nil {
			w.Fail("snapshot", "set-accepted", "%s: SetItem on a snapshot returned nil", label)
		}
		if _, err := c.Delete([]byte("a")); err == nil {
			w.Fail("snapshot", "delete-accepted", "%s: Delete on a snapshot returned nil", label)
		}
		// Collection.Write persists dirty nodes without a root record; through a
		// snapshot it would write to a file the snapshot does not own (the file
		// monitor flags any write issued here as well)
		if err := c.Write(); err == nil {
			w.Fail("snapshot", "write-accepted", "%s: Collection.Write on a snapshot returned nil", label)
		}
		break
	}
	w.logf("%s", label)
}

// ReadSnap reads everything from a snapshot (a cache-changing letter).
func (w *World) ReadSnap(i int) {
	label := fmt.Sprintf("ReadSnap(s%d)", i)
	w.Trans++
	w.observe(label, w.Snaps[i].St, w.Snaps[i].Exp.Cur, "snapshot", true)
}

// ---------------------------------------------------------------- visits as letters

func (w *World) VisitAll(name string, withValue bool) {
	c := w.Colls[name]
	mc := w.M.Cur.Colls[name]
	label := fmt.Sprintf("VisitAll(%s,%v)", name, withValue)
	w.begin(label, true, !withValue)
	w.Trans++
	keys := mc.SortedKeys()
	var got []string
	err := c.VisitItemsAscend(LowTarget(mc.Cmp, keys), withValue, func(it *gkvlite.Item) bool {
		got = append(got, string(it.Key))
		if w.RC != nil && w.RC.Counts[it] <= 0 {
			w.Fail("refcount", "visited-item-nonpositive", "item %q passed to a visitor has count %d", it.Key, w.RC.Counts[it])
		}
		return true
	})
	if err != nil {
		w.Fail("model", "visit-error", "%s returned error %v", label, err)
		return
	}
	var want []string
	for _, k := range keys {
		want = append(want, string(k))
	}
	if strings.Join(got, "\x00") != strings.Join(want, "\x00") {
		w.Fail("model", "visit-sequence", "%s delivered %q, model %q", label, got, want)
	}
	w.logf("%s=%q", label, got)
}

// ---------------------------------------------------------------- Observe

// Observe runs the public-API read battery on every open handle and compares
// with the model.  It perturbs caches and therefore only ever runs at the end
// of a replay.
func (w *World) ObserveAll() {
	if !w.Closed {
		w.observe("Observe(orig)", w.St, w.M.Cur, "observe", true)
	}
	for i, sn := range w.Snaps {
		if !sn.Closed && !sn.Reverted {
			w.observe(fmt.Sprintf("Observe(s%d)", i), sn.St, sn.Exp.Cur, "snapshot", true)
		}
	}
}

func (w *World) observe(label string, st *gkvlite.Store, exp *RState, oracle string, log bool) {
	w.begin(label, true, false)
	var sb strings.Builder
	names := st.GetCollectionNames()
	if strings.Join(names, "\x00") != strings.Join(exp.Names(), "\x00") {
		w.Fail(oracle, "names", "%s: collection names %q, model %q", label, names, exp.Names())
		return
	}
	fmt.Fprintf(&sb, "%s names=%q;", label, names)
	for _, name := range names {
		c := st.GetCollection(name)
		if c == nil {
			w.Fail(oracle, "getcollection-nil", "%s: GetCollection(%q) is nil", label, name)
			continue
		}
		mc := exp.Colls[name]
		w.observeColl(label, st, c, name, mc, oracle, &sb)
	}
	if log {
		w.Log = append(w.Log, sb.String())
	}
}

func (w *World) observeColl(label string, st *gkvlite.Store, c *gkvlite.Collection, name string, mc *RColl, oracle string, sb *strings.Builder) {
	fn := Cmps[orderOf(mc.Cmp)]
	keys := mc.SortedKeys()
	// totals
	n, b, err := c.GetTotals()
	wn, wb := mc.Totals()
	b = w.normBytes(b, wb, n)
	if err != nil || n != wn || b != wb {
		w.Fail(oracle, "totals", "%s: GetTotals(%q) = (%d,%d,%v), model (%d,%d)", label, name, n, b, err, wn, wb)
	}
	fmt.Fprintf(sb, "%s tot=%d,%d;", name, n, b)
	// min / max
	for _, mm := range []string{"min", "max"} {
		var it *gkvlite.Item
		var err error
		var wantKey []byte
		if mm == "min" {
			it, err = c.MinItem(true)
			if len(keys) > 0 {
				wantKey = keys[0]
			}
		} else {
			it, err = c.MaxItem(true)
			if len(keys) > 0 {
				wantKey = keys[len(keys)-1]
			}
		}
		if err != nil {
			w.Fail(oracle, mm+"-error", "%s: %s(%q) error %v", label, mm, name, err)
			continue
		}
		if wantKey == nil {
			if it != nil {
				w.Fail(oracle, mm+"-phantom", "%s: %s(%q) returned %q on an empty collection", label, mm, name, it.Key)
			}
			continue
		}
		if it == nil {
			w.Fail(oracle, mm+"-missing", "%s: %s(%q) returned nil, model %q", label, mm, name, wantKey)
			continue
		}
		ri := mc.Items[string(wantKey)]
		if !bytes.Equal(it.Key, wantKey) || it.Priority != ri.Prio || it.Val == nil || !bytes.Equal(it.Val, ri.Val) {
			w.Fail(oracle, mm+"-wrong", "%s: %s(%q) = (%q,%d,%s), model (%q,%d,%s)", label, mm, name, it.Key, it.Priority, vstr(it.Val), wantKey, ri.Prio, vstr(ri.Val))
		}
		fmt.Fprintf(sb, "%s=%q;", mm, trunc(string(it.Key)))
		w.release(st, c, it)
	}
	// point lookups over the universe
	univ := map[string]bool{"zz": true}
	for _, k := range w.Keys {
		univ[string(k)] = true
	}
	for k := range mc.Items {
		univ[k] = true
	}
	uk := make([]string, 0, len(univ))
	for k := range univ {
		uk = append(uk, k)
	}
	sort.Strings(uk)
	for _, k := range uk {
		ri, present := mc.Items[k]
		var v []byte
		if w.RC == nil {
			// Get and Exist take a reference the caller cannot release; they are
			// separate letters in the reference-counting profiles.
			v, err = c.Get([]byte(k))
			if err != nil {
				w.Fail(oracle, "get-error", "%s: Get(%q,%q) error %v", label, name, trunc(k), err)
				continue
			}
			if present != (v != nil) || (present && !bytes.Equal(v, ri.Val)) {
				w.Fail(oracle, "get-wrong", "%s: Get(%q,%q) = %s, model present=%v %s", label, name, trunc(k), vstr(v), present, vstr(ri.Val))
			}
			if ex := c.Exist([]byte(k)); ex != present {
				w.Fail(oracle, "exist-wrong", "%s: Exist(%q,%q) = %v, model %v", label, name, trunc(k), ex, present)
			}
		} else {
			wv, err := c.GetItem([]byte(k), true)
			if err != nil {
				w.Fail(oracle, "get-error", "%s: GetItem(%q,%q,true) error %v", label, name, trunc(k), err)
				continue
			}
			if present != (wv != nil) || (present && (wv.Val == nil || !bytes.Equal(wv.Val, ri.Val))) {
				w.Fail(oracle, "get-wrong", "%s: GetItem(%q,%q,true) disagrees with the model", label, name, trunc(k))
			}
			if wv != nil {
				v = wv.Val
			}
			w.release(st, c, wv)
		}
		it, err := c.GetItem([]byte(k), false)
		if err != nil {
			w.Fail(oracle, "getitem-error", "%s: GetItem(%q,%q) error %v", label, name, trunc(k), err)
			continue
		}
		if present != (it != nil) || (present && (!bytes.Equal(it.Key, []byte(k)) || it.Priority != ri.Prio || (it.Val != nil && !bytes.Equal(it.Val, ri.Val)))) {
			w.Fail(oracle, "getitem-wrong", "%s: GetItem(%q,%q,false) disagrees with the model", label, name, trunc(k))
		}
		w.release(st, c, it)
		if present {
			fmt.Fprintf(sb, "%q=%s/%d;", trunc(k), vstr(v), ri.Prio)
		}
	}
	// full ascending visit with values and depth, full descending visit
	type seen struct {
		k     string
		depth uint64
	}
	var asc, desc []seen
	bad := false
	err = c.VisitItemsAscendEx(LowTarget(mc.Cmp, keys), true, func(it *gkvlite.Item, depth uint64) bool {
		asc = append(asc, seen{string(it.Key), depth})
		ri, ok := mc.Items[string(it.Key)]
		if !ok || it.Priority != ri.Prio || it.Val == nil || !bytes.Equal(it.Val, ri.Val) {
			bad = true
		}
		if w.RC != nil && w.RC.Counts[it] <= 0 {
			w.Fail("refcount", "visited-item-nonpositive", "item %q passed to a visitor has count %d", it.Key, w.RC.Counts[it])
		}
		return true
	})
	if err != nil {
		w.Fail(oracle, "visit-asc-error", "%s: ascending visit of %q failed: %v", label, name, err)
	}
	err = c.VisitItemsDescendEx(HighTarget(mc.Cmp, keys), false, func(it *gkvlite.Item, depth uint64) bool {
		desc = append(desc, seen{string(it.Key), depth})
		ri, ok := mc.Items[string(it.Key)]
		if !ok || it.Priority != ri.Prio || (it.Val != nil && !bytes.Equal(it.Val, ri.Val)) {
			bad = true
		}
		return true
	})
	if err != nil {
		w.Fail(oracle, "visit-desc-error", "%s: descending visit of %q failed: %v", label, name, err)
	}
	okSeq := len(asc) == len(keys) && len(desc) == len(keys)
	if okSeq {
		for i, k := range keys {
			if asc[i].k != string(k) || desc[len(keys)-1-i].k != string(k) || asc[i].depth != desc[len(keys)-1-i].depth {
				okSeq = false
			}
		}
	}
	if !okSeq || bad {
		var a, d []string
		for _, s := range asc {
			a = append(a, trunc(s.k))
		}
		for _, s := range desc {
			d = append(d, trunc(s.k))
		}
		var wk []string
		for _, k := range keys {
			wk = append(wk, trunc(string(k)))
		}
		w.Fail(oracle, "visit-wrong", "%s: visits of %q delivered asc=%q desc=%q (bad item=%v), model %q", label, name, a, d, bad, wk)
	}
	for _, s := range asc {
		fmt.Fprintf(sb, "%q@%d,", trunc(s.k), s.depth)
	}
	sb.WriteString(";")
	_ = fn
}

// ---------------------------------------------------------------- iterators and nested calls

// IterOpen starts an ascending iterator over the whole collection and takes
// the first item, which pins the version current at this moment.
func (w *World) IterOpen(name string) {
	c := w.Colls[name]
	mc := w.M.Cur.Colls[name]
	label := fmt.Sprintf("IterOpen(%s)", name)
	w.begin(label, true, false)
	w.Trans++
	keys := mc.SortedKeys()
	it := c.IterateAscend(LowTarget(mc.Cmp, keys), true)
	oi := &OpenIter{It: it, Name: name, Exp: keys, ExpV: map[string]RItem{}}
	for k, v := range mc.Items {
		oi.ExpV[k] = v
	}
	w.Iters = append(w.Iters, oi)
	w.iterNext(label, oi)
}

// IterOpenSnap starts an ascending iterator over collection name of snapshot
// i and takes the first item: the reader pins the snapshot's version and must
// keep delivering it even after the snapshot handle is closed.
func (w *World) IterOpenSnap(i int, name string) {
	sn := w.Snaps[i]
	c := sn.St.GetCollection(name)
	mc := sn.Exp.Cur.Colls[name]
	label := fmt.Sprintf("IterOpenSnap(s%d,%s)", i, name)
	w.begin(label, true, false)
	w.Trans++
	if c == nil || mc == nil {
		w.logf("%s=absent", label)
		return
	}
	keys := mc.SortedKeys()
	it := c.IterateAscend(LowTarget(mc.Cmp, keys), true)
	oi := &OpenIter{It: it, Name: name, Exp: keys, ExpV: map[string]RItem{}}
	for k, v := range mc.Items {
		oi.ExpV[k] = v
	}
	w.Iters = append(w.Iters, oi)
	w.iterNext(label, oi)
}

func (w *World) iterNext(label string, oi *OpenIter) {
	ok := oi.It.Next()
	if len(oi.Exp) == 0 {
		if ok {
			w.Fail("iterator", "extra-item", "%s: iterator delivered %q beyond the pinned version", label, oi.It.Result().Key)
		}
		oi.Closed = true
		Quiesce()
		w.logf("%s=end", label)
		return
	}
	if !ok {
		w.Fail("iterator", "short", "%s: iterator ended but the pinned version still has %q (err %v)", label, oi.Exp[0], oi.It.Err())
		oi.Closed = true
		return
	}
	it := oi.It.Result()
	want := oi.Exp[0]
	oi.Exp = oi.Exp[1:]
	ri := oi.ExpV[string(want)]
	if it == nil || !bytes.Equal(it.Key, want) || it.Priority != ri.Prio || it.Val == nil || !bytes.Equal(it.Val, ri.Val) {
		w.Fail("iterator", "wrong-item", "%s: iterator delivered %v, pinned version has (%q,%d,%s)", label, it, want, ri.Prio, vstr(ri.Val))
	}
	w.logf("%s=%q", label, want)
}

func (w *World) IterNext(i int) {
	label := fmt.Sprintf("IterNext(i%d)", i)
	w.begin(label, true, false)
	w.Trans++
	w.iterNext(label, w.Iters[i])
}

func (w *World) IterClose(i int) {
	label := fmt.Sprintf("IterClose(i%d)", i)
	w.begin(label, true, false)
	w.Trans++
	w.Iters[i].It.Close()
	w.Iters[i].Closed = true
	Quiesce() // the producer unwinds and releases the version it pinned now
	w.logf("%s", label)
}

// DrainIters drains every open iterator; each must deliver exactly the rest
// of the version it pinned.
func (w *World) DrainIters() {
	for i, oi := range w.Iters {
		for n := 0; !oi.Closed && n < 1000; n++ {
			label := fmt.Sprintf("Drain(i%d)", i)
			w.begin(label, true, false)
			w.iterNext(label, oi)
		}
	}
}

// VisitNested runs inner inside the first visitor callback of an ascending
// visit of collection name; the visit must still deliver the version that
// was current when it started.
func (w *World) VisitNested(name string, innerName string, inner func()) {
	w.VisitNestedMode(name, innerName, true, 0, inner)
}

// VisitNestedMode: withValue selects the value mode of the outer visit, at is
// the index of the callback in which inner runs.
func (w *World) VisitNestedMode(name string, innerName string, withValue bool, at int, inner func()) {
	c := w.Colls[name]
	mc := w.M.Cur.Colls[name].Clone()
	label := fmt.Sprintf("VisitNested(%s,%v,#%d){%s}", name, withValue, at, innerName)
	w.begin(label, false, false)
	w.Trans++
	keys := mc.SortedKeys()
	var got []string
	seen := 0
	bad := false
	err := c.VisitItemsAscend(LowTarget(mc.Cmp, keys), withValue, func(it *gkvlite.Item) bool {
		if !w.ItemLive(it) {
			w.Fail("refcount", "visited-item-released", "%s: the item passed to the visitor had been released (count %d)", label, w.RC.Counts[it])
		}
		got = append(got, string(it.Key))
		ri, ok := mc.Items[string(it.Key)]
		if !ok || it.Priority != ri.Prio || (withValue && it.Val == nil) || (it.Val != nil && !bytes.Equal(it.Val, ri.Val)) {
			bad = true
		}
		if seen == at {
			inner()
			w.begin(label, false, false)
		}
		seen++
		return true
	})
	if err != nil {
		w.Fail("nested", "visit-error", "%s returned error %v", label, err)
		return
	}
	var want []string
	for _, k := range keys {
		want = append(want, string(k))
	}
	if bad || strings.Join(got, "\x00") != strings.Join(want, "\x00") {
		w.Fail("nested", "visit-sequence", "%s delivered %q (bad item %v), the version pinned at its start has %q", label, got, bad, want)
	}
	w.logf("%s=%q", label, got)
}

// checkLazyOpen: opening a file that ends in a root record issues Stat plus
// reads that lie entirely inside that record, and caches no node and no item.
func (w *World) checkLazyOpen(label string, st *gkvlite.Store) {
	data := w.File.Data
	r := FindLastRoot(data, int64(len(data)))
	if r == nil || r.End != int64(len(data)) || st == nil {
		return
	}
	for _, c := range w.File.Log {
		if c.Op == "R" && c.Len > 0 && (c.Off < r.Off || c.Off+int64(c.Len) > r.End) {
			w.Fail("lazy", "open-read-outside-root", "%s read [%d,%d) outside the last root record [%d,%d)", label, c.Off, c.Off+int64(c.Len), r.Off, r.End)
			return
		}
		if c.Op == "W" || c.Op == "T" {
			w.Fail("lazy", "open-wrote", "%s issued %s", label, c.Op)
		}
	}
	if Instrumented {
		for _, n := range st.GetCollectionNames() {
			if ns := Walk(st.GetCollection(n)); len(ns) > 0 {
				w.Fail("lazy", "open-loaded-nodes", "%s left %d nodes of collection %q cached", label, len(ns), n)
				return
			}
		}
	}
}

// faulted reports whether an injected fault fired during the call in progress
// and, if so, checks the C07 contract for the call: an error is returned (when
// the entry point has an error result) and no data comes with it.
func (w *World) faulted(label string, err error, hasErr bool, gotData bool) bool {
	if w.File == nil || w.File.FaultsHit == w.faults0 {
		return false
	}
	w.faults0 = w.File.FaultsHit
	w.FaultOps = append(w.FaultOps, label)
	lf := w.File.LastFault
	what := fmt.Sprintf("%s call #%d (offset %d, %d bytes, %d applied)", map[string]string{"R": "ReadAt", "W": "WriteAt", "S": "Stat", "T": "Truncate"}[lf.Op], lf.Seq, lf.Off, lf.Len, len(lf.Data))
	if hasErr && err == nil {
		// C07 is told; for every other oracle the call succeeded (that is what
		// it reported), so the caller goes on along the success path and the
		// consequences of the swallowed failure are judged by the oracles of
		// the properties they belong to (durability, contents, aggregates, ...)
		w.Fail("fault", "swallowed-in-"+opKind(label), "%s reported success although the file failed %s", label, what)
		w.logf("%s=FAULT-SWALLOWED", label)
		return false
	}
	if gotData {
		w.Fail("fault", "data-with-error-in-"+opKind(label), "%s returned data alongside the failure of %s", label, what)
	}
	w.logf("%s=FAULT", label)
	return true
}

// OnlySwallowed reports whether every violation so far is a swallowed fault.
func (w *World) OnlySwallowed() bool {
	for _, v := range w.Viols {
		if !strings.HasPrefix(v.Sig, "fault:swallowed-in-") {
			return false
		}
	}
	return true
}
