package harness

import (
	"unsafe"

	"github.com/cbehopkins/gkvlite"
)

func itemPtr(it *gkvlite.Item) uintptr { return uintptr(unsafe.Pointer(it)) }
