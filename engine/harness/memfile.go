package harness

import (
	"errors"
	"io"
	"os"
	"sync"
	"time"
)

// IOCall is one logged StoreFile call.
type IOCall struct {
	Seq   int
	Op    string // "R" ReadAt, "W" WriteAt, "S" Stat, "T" Truncate
	Off   int64
	Len   int
	Data  []byte // bytes actually applied by a write
	Label string // API call in progress
	Fail  bool
}

// ErrInjected is the error returned by an injected fault.
var ErrInjected = errors.New("injected I/O fault")

// MemFile is an in-memory StoreFile whose fault-free behaviour copies os.File:
// ReadAt returns io.EOF only when fewer bytes than requested exist (a
// zero-length read returns (0, nil) everywhere), WriteAt extends the file,
// zero-length writes are accepted.
type MemFile struct {
	mu    sync.Mutex // the StoreFile must be concurrency-safe (free-running validation pass)
	Data  []byte
	Log   []IOCall
	LogOn bool
	Calls int
	Label string
	// fault injection
	FaultMode  int // 0 none, 1 ask explorer at every call (ClassFault), 2 fixed plan
	PlanAt     int // FaultMode 2: 1-based call index to fail
	PlanKeep   int // for writes: bytes kept (-1 = none)
	FaultsHit  int
	LastFault  IOCall
	ReadOnlyFS bool // if true, writes and truncates fail (never used by fault-free runs)
	TornAll    bool // FaultMode 1: every partial length 0..n-1 of a write (otherwise 0, 1, n/2, n-1 bytes)
	// monitors
	OnCall     func(c *IOCall)
	KeepWrites bool     // keep every successful write / truncate of the whole execution in WLog
	WLog       []IOCall // (crash images)
}

type memInfo struct{ size int64 }

func (m memInfo) Name() string       { return "memfile" }
func (m memInfo) Size() int64        { return m.size }
func (m memInfo) Mode() os.FileMode  { return 0o644 }
func (m memInfo) ModTime() time.Time { return time.Time{} }
func (m memInfo) IsDir() bool        { return false }
func (m memInfo) Sys() interface{}   { return nil }

// Clone returns an independent file with the same bytes and no log.
func (f *MemFile) Clone() *MemFile {
	return &MemFile{Data: append([]byte(nil), f.Data...)}
}

func NewMemFileFrom(b []byte) *MemFile {
	return &MemFile{Data: append([]byte(nil), b...)}
}

// fault decides whether this call fails; for writes keep is the number of bytes
// applied before failing.
func (f *MemFile) fault(isWrite bool, n int) (fail bool, keep int) {
	switch f.FaultMode {
	case 1:
		if !isWrite || n == 0 {
			return Choose(2, ClassFault) == 1, 0
		}
		// A failing write applies 0..n-1 bytes ("failing outright or after a
		// partial write"); a write that stores all n bytes and still reports an
		// error is outside the property's fault model.
		if f.TornAll || n <= 4 {
			k := Choose(1+n, ClassFault)
			if k == 0 {
				return false, 0
			}
			return true, k - 1
		}
		keeps := []int{0, 1, n / 2, n - 1}
		k := Choose(1+len(keeps), ClassFault)
		if k == 0 {
			return false, 0
		}
		return true, keeps[k-1]
	case 2:
		if f.Calls == f.PlanAt {
			k := f.PlanKeep
			if k < 0 {
				k = 0
			}
			if k > n {
				k = n
			}
			return true, k
		}
	}
	return false, 0
}

func (f *MemFile) record(c IOCall) {
	if f.OnCall != nil {
		f.OnCall(&c)
	}
	if f.LogOn {
		f.Log = append(f.Log, c)
	}
	if f.KeepWrites && !c.Fail && (c.Op == "W" || c.Op == "T") {
		f.WLog = append(f.WLog, c)
	}
}

func (f *MemFile) ReadAt(p []byte, off int64) (int, error) {
	YieldIO()
	f.mu.Lock()
	defer f.mu.Unlock()
	f.Calls++
	c := IOCall{Seq: f.Calls, Op: "R", Off: off, Len: len(p), Label: f.Label}
	if fail, _ := f.fault(false, len(p)); fail {
		c.Fail = true
		f.FaultsHit++
		f.LastFault = c
		f.record(c)
		return 0, ErrInjected
	}
	f.record(c)
	if off < 0 {
		return 0, errors.New("negative offset")
	}
	if len(p) == 0 {
		return 0, nil
	}
	if off >= int64(len(f.Data)) {
		return 0, io.EOF
	}
	n := copy(p, f.Data[off:])
	if n < len(p) {
		return n, io.EOF
	}
	return n, nil
}

func (f *MemFile) apply(p []byte, off int64) {
	if len(p) == 0 {
		return
	}
	end := off + int64(len(p))
	if end > int64(len(f.Data)) {
		nd := make([]byte, end)
		copy(nd, f.Data)
		f.Data = nd
	}
	copy(f.Data[off:], p)
}

func (f *MemFile) WriteAt(p []byte, off int64) (int, error) {
	YieldIO()
	f.mu.Lock()
	defer f.mu.Unlock()
	f.Calls++
	c := IOCall{Seq: f.Calls, Op: "W", Off: off, Len: len(p), Label: f.Label}
	if off < 0 {
		f.record(c)
		return 0, errors.New("negative offset")
	}
	if fail, keep := f.fault(true, len(p)); fail {
		c.Fail = true
		c.Data = append([]byte(nil), p[:keep]...)
		f.apply(p[:keep], off)
		f.FaultsHit++
		f.LastFault = c
		f.record(c)
		return keep, ErrInjected
	}
	c.Data = append([]byte(nil), p...)
	f.apply(p, off)
	f.record(c)
	return len(p), nil
}

func (f *MemFile) Stat() (os.FileInfo, error) {
	YieldIO()
	f.mu.Lock()
	defer f.mu.Unlock()
	f.Calls++
	c := IOCall{Seq: f.Calls, Op: "S", Label: f.Label}
	if fail, _ := f.fault(false, 0); fail {
		c.Fail = true
		f.FaultsHit++
		f.LastFault = c
		f.record(c)
		return nil, ErrInjected
	}
	f.record(c)
	return memInfo{size: int64(len(f.Data))}, nil
}

func (f *MemFile) Truncate(size int64) error {
	YieldIO()
	f.mu.Lock()
	defer f.mu.Unlock()
	f.Calls++
	c := IOCall{Seq: f.Calls, Op: "T", Off: size, Label: f.Label}
	if fail, _ := f.fault(false, 0); fail {
		c.Fail = true
		f.FaultsHit++
		f.LastFault = c
		f.record(c)
		return ErrInjected
	}
	f.record(c)
	if size < 0 {
		return errors.New("negative size")
	}
	if size <= int64(len(f.Data)) {
		f.Data = f.Data[:size]
	} else {
		nd := make([]byte, size)
		copy(nd, f.Data)
		f.Data = nd
	}
	return nil
}
