package harness

import (
	"bytes"
	"encoding/binary"
	"fmt"
	"strings"

	"github.com/cbehopkins/gkvlite"
)

// FlushMark records, for one successful Flush, how many writes of the
// execution's write log had completed when it returned.
type FlushMark struct {
	Writes int
	State  *RState
}

func applyWrite(img []byte, c IOCall, n int) []byte {
	if c.Op == "T" {
		if int(c.Off) <= len(img) {
			return img[:c.Off]
		}
		return append(img, make([]byte, int(c.Off)-len(img))...)
	}
	d := c.Data[:n]
	if len(d) == 0 {
		return img
	}
	end := int(c.Off) + len(d)
	if end > len(img) {
		img = append(img, make([]byte, end-len(img))...)
	}
	copy(img[c.Off:], d)
	return img
}

// AdversarialValues returns byte strings that contain the magic markers or
// fragments of root records without being a complete, self-consistent root
// record where they land (C03).  prev is the file image so far (for fragments
// of the genuine previous root record).
func AdversarialValues(prev []byte) [][]byte {
	be := func(off int64, l uint32) []byte {
		b := make([]byte, 12)
		binary.BigEndian.PutUint64(b[0:8], uint64(off))
		binary.BigEndian.PutUint32(b[8:12], l)
		return b
	}
	me2 := append(append([]byte{}, decMagicEnd...), decMagicEnd...)
	mb2 := append(append([]byte{}, decMagicBeg...), decMagicBeg...)
	out := [][]byte{
		me2,
		mb2,
		append(be(0, 62), me2...), // a root trailer with offset 0
	}
	hdr := append(append([]byte{}, mb2...), 0, 0, 0, 4, 0, 0, 0, 70)
	out = append(out, append(hdr, []byte(`{"x":{"o":0,"l":0}}`)...)) // leading half of a root record, no trailer
	// a perfectly framed root record (magics, version, both lengths, and an
	// offset that is right for a value of a 1-byte key written next) whose body
	// is not JSON: not a self-consistent root record, the scan must go on
	{
		body := []byte(`{"x":{"o":0,"l":0},,,not json`)
		length := uint32(12 + 4 + 4 + len(body) + 8 + 4 + 12)
		landing := int64(len(prev)) + 16 + 1
		fr := append([]byte{}, mb2...)
		fr = append(fr, 0, 0, 0, 4, byte(length>>24), byte(length>>16), byte(length>>8), byte(length))
		fr = append(fr, body...)
		fr = append(fr, be(landing, length)...)
		fr = append(fr, me2...)
		out = append(out, fr)
	}
	// trailers of, and byte-exact copies of, the genuine root records already in
	// the file: the newest one and up to two older ones (an older record must
	// not be resurrected by a fragment that merely points at it)
	roots := AllRoots(prev)
	for i := len(roots) - 1; i >= 0 && i >= len(roots)-3; i-- {
		r := roots[i]
		out = append(out, append(be(r.Off, uint32(r.End-r.Off)), me2...))
		out = append(out, append([]byte{}, prev[r.Off:r.End]...))
	}
	return out
}

// CrashSweep checks every crash image of the execution's write log: every
// prefix of the ordered writes plus every byte-granular truncation of the
// write in flight (sparse = only 0, 1, middle, last byte cuts get the
// post-recovery check; all images get the recovery check).  With junk, every
// adversarial fragment (and every prefix of it) is appended to every image.
func (w *World) CrashSweep(marks []FlushMark, junk bool, allCuts bool, postAll bool) (images int) {
	log := w.File.WLog
	img := []byte{}
	check := func(image []byte, done int, what string, post bool) {
		images++
		var exp *RState
		for _, m := range marks {
			if m.Writes <= done {
				exp = m.State
			}
		}
		w.checkCrashImage(image, exp, what, post)
	}
	for k := 0; k <= len(log) && len(w.Viols) == 0; k++ {
		// image with writes 0..k-1 complete
		bounds := []int{0}
		if k < len(log) && log[k].Op == "W" {
			n := len(log[k].Data)
			if allCuts {
				bounds = bounds[:0]
				for c := 0; c < n; c++ {
					bounds = append(bounds, c)
				}
			} else {
				bounds = []int{0, 1, n / 2, n - 1}
			}
		}
		prevC := -1
		for _, c := range bounds {
			if c == prevC || c < 0 || (k < len(log) && log[k].Op == "W" && c >= len(log[k].Data) && c > 0) {
				continue
			}
			prevC = c
			image := append([]byte{}, img...)
			if c > 0 {
				image = applyWrite(image, log[k], c)
			}
			what := fmt.Sprintf("crash after %d complete writes + %d bytes of the next", k, c)
			sparse := c == 0 || c == 1
			if k < len(log) && log[k].Op == "W" {
				n := len(log[k].Data)
				sparse = sparse || c == n/2 || c == n-1
			}
			check(image, k, what, postAll || sparse)
			var tails [][]byte
			if junk {
				// fragments are taken from the image itself, so that none of them is
				// a complete self-consistent root record where it lands
				tails = AdversarialValues(image)
			}
			for ti, t := range tails {
				for p := 1; p <= len(t) && len(w.Viols) == 0; p++ {
					check(append(append([]byte{}, image...), t[:p]...), k, fmt.Sprintf("%s + junk tail %d[:%d]", what, ti, p), false)
				}
			}
			if len(w.Viols) > 0 {
				return
			}
		}
		if k < len(log) {
			img = applyWrite(img, log[k], len(log[k].Data))
		}
	}
	return
}

func (w *World) checkCrashImage(image []byte, exp *RState, what string, post bool) {
	w.begin("Recover", true, false)
	f := NewMemFileFrom(image)
	cb := gkvlite.StoreCallbacks{}
	if exp != nil {
		cb.KeyCompareForCollection = func(name string) gkvlite.KeyCompare {
			if c, ok := exp.Colls[name]; ok {
				return Cmps[orderOf(c.Cmp)]
			}
			return nil
		}
	}
	w.imageCallbacks(&cb, true)
	st, err := gkvlite.NewStoreEx(f, cb)
	// second opinion on "which root record is the last complete one"
	dr := FindLastRoot(image, int64(len(image)))
	if exp == nil {
		if dr != nil {
			w.Fail("crash", "decoder-found-root", "%s: no Flush had completed, yet the independent decoder finds a complete root record ending at %d", what, dr.End)
		}
		if err != nil {
			if !strings.Contains(err.Error(), "couldn't find roots") {
				w.Fail("crash", "open-error", "%s: no Flush had completed; NewStore returned %v (expected an empty store or the 'no roots' error)", what, err)
			}
			return
		}
		if n := st.GetCollectionNames(); len(n) != 0 {
			w.Fail("crash", "phantom-state", "%s: no Flush had completed, yet the recovered store has collections %q", what, n)
		}
		return
	}
	if err != nil || st == nil {
		w.Fail("crash", "open-error", "%s: NewStore returned %v; the last completed Flush must be recoverable", what, err)
		return
	}
	if dr == nil || dr.End != exp.End {
		e := int64(-1)
		if dr != nil {
			e = dr.End
		}
		w.Fail("crash", "decoder-disagrees", "%s: the last complete root record ends at %d according to the independent decoder, the last completed Flush ended at %d", what, e, exp.End)
	}
	n0 := len(w.Viols)
	w.observe("Recover", st, exp, "crash", false)
	if len(w.Viols) > n0 {
		w.Viols[len(w.Viols)-1].Msg = what + ": " + w.Viols[len(w.Viols)-1].Msg
		return
	}
	if !bytes.Equal(f.Data, image) {
		w.Fail("crash", "recovery-wrote", "%s: recovery modified the file", what)
	}
	if !post {
		return
	}
	// the recovered store accepts further mutations and flushes, durable in turn
	w.begin("Recover+Set+Flush", false, false)
	var c *gkvlite.Collection
	names := st.GetCollectionNames()
	nm := "zc"
	if len(names) > 0 {
		nm = names[0]
		c = st.GetCollection(nm)
	} else {
		c = st.SetCollection(nm, nil)
	}
	after := exp.Clone()
	if after.Colls[nm] == nil {
		after.Colls[nm] = &RColl{Cmp: "nil", Items: map[string]RItem{}}
	}
	if err := c.SetItem(&gkvlite.Item{Key: []byte("zz9"), Val: []byte("post"), Priority: 7}); err != nil {
		w.Fail("crash", "post-set-error", "%s: SetItem on the recovered store: %v", what, err)
		return
	}
	after.Colls[nm].Items["zz9"] = RItem{Val: []byte("post"), Prio: 7}
	if err := st.Flush(); err != nil {
		w.Fail("crash", "post-flush-error", "%s: Flush on the recovered store: %v", what, err)
		return
	}
	if !bytes.Equal(f.Data[:exp.End], image[:exp.End]) {
		w.Fail("crash", "post-flush-overwrote", "%s: the Flush after recovery modified bytes below the recovered root record", what)
	}
	n0 = len(w.Viols)
	w.checkImage(f.Data, after, "crash", "Recover+Set+Flush+Reopen")
	if len(w.Viols) > n0 {
		w.Viols[len(w.Viols)-1].Msg = what + ": " + w.Viols[len(w.Viols)-1].Msg
	}
}
