package harness

import (
	"encoding/binary"
	"errors"
	"fmt"
	"io"
	"os"
	"sync"
)

// SparseFile is an in-memory StoreFile whose first Base bytes are a hole: a
// file that "already holds" Base bytes of older data which nothing may touch.
// It lets a store work at file offsets beyond 2^31 and 2^32 without allocating
// them.  It starts with one root record of an empty store ({}) ending the hole,
// built here from the version-4 layout, so that opening it is an ordinary open.
type SparseFile struct {
	mu    sync.Mutex
	Base  int64 // offset of Data[0]
	Data  []byte
	Notes []string // accesses below Base (violations)
}

// NewSparseFile returns a file of length end whose last bytes are the root
// record of an empty store and whose other bytes are a hole.
func NewSparseFile(end int64) *SparseFile {
	json := []byte("{}")
	total := int64(12 + 4 + 4 + len(json) + 8 + 4 + 12)
	off := end - total
	rec := make([]byte, 0, total)
	rec = append(rec, decMagicBeg...)
	rec = append(rec, decMagicBeg...)
	rec = binary.BigEndian.AppendUint32(rec, 4)
	rec = binary.BigEndian.AppendUint32(rec, uint32(total))
	rec = append(rec, json...)
	rec = binary.BigEndian.AppendUint64(rec, uint64(off))
	rec = binary.BigEndian.AppendUint32(rec, uint32(total))
	rec = append(rec, decMagicEnd...)
	rec = append(rec, decMagicEnd...)
	return &SparseFile{Base: off, Data: rec}
}

// SeedEnd is the end of the seed root record (the lowest length the file may
// be truncated to).
func (f *SparseFile) SeedEnd() int64 { return f.Base + 46 }

func (f *SparseFile) note(format string, a ...interface{}) {
	if len(f.Notes) < 4 {
		f.Notes = append(f.Notes, fmt.Sprintf(format, a...))
	}
}

func (f *SparseFile) ReadAt(p []byte, off int64) (int, error) {
	YieldIO()
	f.mu.Lock()
	defer f.mu.Unlock()
	if len(p) == 0 {
		return 0, nil
	}
	if off < f.Base {
		f.note("ReadAt(%d bytes at %d) below the store's first record at %d", len(p), off, f.Base)
		return 0, errors.New("sparse file: read in the hole")
	}
	rel := off - f.Base
	if rel >= int64(len(f.Data)) {
		return 0, io.EOF
	}
	n := copy(p, f.Data[rel:])
	if n < len(p) {
		return n, io.EOF
	}
	return n, nil
}

func (f *SparseFile) WriteAt(p []byte, off int64) (int, error) {
	YieldIO()
	f.mu.Lock()
	defer f.mu.Unlock()
	if len(p) == 0 {
		return 0, nil
	}
	if off < f.SeedEnd() {
		f.note("WriteAt(%d bytes at %d) below the end of the seed root record at %d", len(p), off, f.SeedEnd())
		return 0, errors.New("sparse file: write below the seed root record")
	}
	rel := off - f.Base
	if need := rel + int64(len(p)); need > int64(len(f.Data)) {
		f.Data = append(f.Data, make([]byte, need-int64(len(f.Data)))...)
	}
	copy(f.Data[rel:], p)
	return len(p), nil
}

func (f *SparseFile) Stat() (os.FileInfo, error) {
	YieldIO()
	f.mu.Lock()
	defer f.mu.Unlock()
	return memInfo{size: f.Base + int64(len(f.Data))}, nil
}

func (f *SparseFile) Truncate(size int64) error {
	YieldIO()
	f.mu.Lock()
	defer f.mu.Unlock()
	if size < f.SeedEnd() {
		f.note("Truncate(%d) below the end of the seed root record at %d", size, f.SeedEnd())
		return errors.New("sparse file: truncate below the seed root record")
	}
	rel := size - f.Base
	if rel <= int64(len(f.Data)) {
		f.Data = f.Data[:rel]
	} else {
		f.Data = append(f.Data, make([]byte, rel-int64(len(f.Data)))...)
	}
	return nil
}
