package harness

import (
	"bytes"
	"fmt"
	"sort"
	"strings"

	"github.com/cbehopkins/gkvlite"
)

// handles returns every open (store, collection name, collection, expected state).
type handle struct {
	label string
	st    *gkvlite.Store
	exp   *RState
}

func (w *World) handles() []handle {
	var hs []handle
	if !w.Closed && w.St != nil {
		hs = append(hs, handle{"orig", w.St, w.M.Cur})
	}
	for i, sn := range w.Snaps {
		if !sn.Closed && !sn.Reverted {
			hs = append(hs, handle{fmt.Sprintf("s%d", i), sn.St, sn.Exp.Cur})
		}
	}
	return hs
}

// CheckRecycleDirect: no node on the free list is reachable through cached
// pointers from the current version of any open handle (C10 oracle 1).
func (w *World) CheckRecycleDirect() {
	if !Instrumented {
		return
	}
	if _, ok := FreeNodeSet(); !ok {
		w.Fail("recycle", "free-list-cycle", "the node free list is cyclic")
		return
	}
	for _, h := range w.handles() {
		for _, name := range h.st.GetCollectionNames() {
			c := h.st.GetCollection(name)
			for _, n := range Walk(c) {
				if n.Free {
					w.Fail("recycle", "freed-node-reachable", "a node on the free list is still reachable from collection %q of handle %s", name, h.label)
					return
				}
			}
		}
	}
}

// Churn allocates and frees enough nodes in an unrelated memory-only store to
// reuse (and overwrite) everything that is on the free lists (C10 oracle 2).
func (w *World) Churn() {
	w.begin("Churn", true, false)
	n, _, _ := FreeCounts()
	st, err := gkvlite.NewStore(nil)
	if err != nil {
		return
	}
	c := st.SetCollection("churn", nil)
	total := n + 8
	for i := 0; i < total; i++ {
		k := []byte(fmt.Sprintf("churn%04d", i))
		c.SetItem(&gkvlite.Item{Key: k, Val: []byte("CHURN"), Priority: int32((i * 7919) % 1000)})
	}
	for i := 0; i < total; i += 2 {
		c.Delete([]byte(fmt.Sprintf("churn%04d", i)))
	}
	// keep the scratch store open: its nodes now occupy the recycled memory
}

// CheckDurable: a clone of the image opens to the top of the flush stack (C02).
func (w *World) CheckDurable() {
	if w.NoFile {
		return
	}
	w.checkImage(w.File.Data, w.M.Durable(), "durable", "Reopen(clone)")
}

// checkImage opens a copy of data in a fresh store and compares it with exp.
func (w *World) checkImage(data []byte, exp *RState, oracle, label string) {
	w.begin(label, true, false)
	f := NewMemFileFrom(data)
	cb := gkvlite.StoreCallbacks{KeyCompareForCollection: func(name string) gkvlite.KeyCompare {
		if c, ok := exp.Colls[name]; ok && orderOf(c.Cmp) != "bytes" {
			return Cmps[orderOf(c.Cmp)]
		}
		return nil // default order
	}}
	w.imageCallbacks(&cb, false)
	st, err := gkvlite.NewStoreEx(f, cb)
	if err != nil {
		if len(exp.Colls) == 0 && exp.End == 0 && strings.Contains(err.Error(), "couldn't find roots") {
			return // documented outcome for a file without any root record
		}
		w.Fail(oracle, "reopen-error", "%s: opening a copy of the file failed: %v", label, err)
		return
	}
	save := w.RC
	w.RC = nil
	w.observe(label, st, exp, oracle, false)
	w.RC = save
	if !bytes.Equal(f.Data, data) {
		w.Fail("readonly-write", "reopen-modified-file", "%s: opening and reading a copy of the file modified it", label)
	}
	st.Close()
}

func boolInt(b bool) int {
	if b {
		return 1
	}
	return 0
}

// CacheDigest summarises the cache state of every open handle (state hash).
func (w *World) CacheDigest() string {
	if !Instrumented {
		return ""
	}
	var sb strings.Builder
	for _, h := range w.handles() {
		sb.WriteString(h.label)
		for _, name := range h.st.GetCollectionNames() {
			c := h.st.GetCollection(name)
			fmt.Fprintf(&sb, "/%s:", name)
			for _, n := range Walk(c) {
				fmt.Fprintf(&sb, "%d%c%c%c%c%c,", n.Depth, bc(n.ItemCached), bc(n.ValCached), bc(n.NodeHasLoc), bc(n.ItemHasLoc), bc(n.Marked))
			}
			if ri, ok := Root(c); ok {
				fmt.Fprintf(&sb, "r%d%c", ri.Refs, bc(ri.Chained))
			}
		}
	}
	a, b, c := FreeCounts()
	fmt.Fprintf(&sb, "|free%d,%d,%d", a, b, c)
	return sb.String()
}

func bc(b bool) byte {
	if b {
		return '1'
	}
	return '0'
}

// StateHash identifies the state reached (model + flush stack + cache digest).
func (w *World) StateHash() uint64 {
	var sb strings.Builder
	sb.WriteString(w.M.Cur.Canon())
	for _, f := range w.M.Flushed {
		sb.WriteString("|")
		sb.WriteString(f.Canon())
	}
	for _, sn := range w.Snaps {
		fmt.Fprintf(&sb, "|snap%v:%s", sn.Closed, sn.Exp.Cur.Canon())
	}
	fmt.Fprintf(&sb, "|closed%v|", w.Closed)
	sb.WriteString(w.CacheDigest())
	if w.File != nil {
		fmt.Fprintf(&sb, "|len%d", len(w.File.Data))
	}
	return HashString(sb.String())
}

// ---------------------------------------------------------------- invariants (C13)

type invNode struct {
	key         []byte
	prio        int32
	valLen      int
	depth       int
	numNodes    uint64
	numBytes    uint64
	left, right *invNode
}

// CheckInvariants verifies, for every collection of the original store, the
// search-tree order, the exact aggregates, the heap order (while no key was
// overwritten with a lower priority) and — with pairwise distinct priorities —
// the canonical shape.  It must run after a full visit (all nodes cached);
// items that are not cached are read from the file through the independent
// decoder.
func (w *World) CheckInvariants() {
	if !Instrumented || w.Closed {
		return
	}
	for _, name := range w.St.GetCollectionNames() {
		c := w.St.GetCollection(name)
		mc := w.M.Cur.Colls[name]
		if mc == nil {
			continue
		}
		fn := Cmps[orderOf(mc.Cmp)]
		nodes := Walk(c)
		if uint64(len(nodes)) != uint64(len(mc.Items)) {
			w.Fail("invariant", "node-count", "collection %q: %d cached nodes after a full visit, model has %d items", name, len(nodes), len(mc.Items))
			continue
		}
		type rn struct {
			key    []byte
			prio   int32
			bytes  uint64
			depth  int
			nn, nb uint64
		}
		var rs []rn
		ok := true
		for _, n := range nodes {
			r := rn{depth: n.Depth, nn: n.NumNodes, nb: n.NumBytes}
			if n.ItemCached {
				r.key, r.prio = n.Key, n.Priority
				if ri, ok := mc.Items[string(n.Key)]; ok {
					r.bytes = uint64(len(n.Key) + len(ri.Val))
				}
			} else if n.ItemHasLoc && w.File != nil {
				d := &decoder{data: w.File.Data, limit: int64(len(w.File.Data))}
				it, err := d.item(n.ItemOff, n.ItemLen)
				if err != nil {
					w.Fail("invariant", "item-unreadable", "collection %q: %v", name, err)
					ok = false
					break
				}
				r.key, r.prio, r.bytes = it.Key, it.Prio, uint64(len(it.Key)+len(it.Val))
			} else {
				w.Fail("invariant", "item-lost", "collection %q: a node has neither a cached item nor a persisted one", name)
				ok = false
				break
			}
			rs = append(rs, r)
		}
		if !ok {
			continue
		}
		// search order
		for i := 1; i < len(rs); i++ {
			if fn(rs[i-1].key, rs[i].key) >= 0 {
				w.Fail("invariant", "search-order", "collection %q: in-order keys %q, %q are not strictly ascending", name, rs[i-1].key, rs[i].key)
			}
		}
		// rebuild the shape from (in-order index, depth) and recompute aggregates
		var build func(lo, hi, depth int) (uint64, uint64, bool)
		build = func(lo, hi, depth int) (uint64, uint64, bool) {
			if lo >= hi {
				return 0, 0, true
			}
			root := -1
			for i := lo; i < hi; i++ {
				if rs[i].depth == depth {
					if root >= 0 {
						return 0, 0, false
					}
					root = i
				}
			}
			if root < 0 {
				return 0, 0, false
			}
			ln, lb, ok1 := build(lo, root, depth+1)
			rnn, rb, ok2 := build(root+1, hi, depth+1)
			if !ok1 || !ok2 {
				return 0, 0, false
			}
			cn, cb := ln+rnn+1, lb+rb+rs[root].bytes
			if cn != rs[root].nn || cb != rs[root].nb {
				w.Fail("invariant", "aggregates", "collection %q: node %q records (numNodes %d, numBytes %d), its subtree has (%d, %d)", name, rs[root].key, rs[root].nn, rs[root].nb, cn, cb)
			}
			if !w.sawLowerPrioOverwrite[name] {
				for _, ch := range [][2]int{{lo, root}, {root + 1, hi}} {
					for i := ch[0]; i < ch[1]; i++ {
						if rs[i].depth == depth+1 && rs[i].prio > rs[root].prio {
							w.Fail("invariant", "heap-order", "collection %q: child %q (priority %d) outranks its parent %q (priority %d)", name, rs[i].key, rs[i].prio, rs[root].key, rs[root].prio)
						}
					}
				}
			}
			return cn, cb, true
		}
		if _, _, ok := build(0, len(rs), 0); !ok {
			w.Fail("invariant", "shape", "collection %q: depths reported by the walk do not form a tree", name)
			continue
		}
		// canonical shape with distinct priorities
		distinct := true
		seenP := map[int32]bool{}
		for _, r := range rs {
			if seenP[r.prio] {
				distinct = false
			}
			seenP[r.prio] = true
		}
		if distinct && !w.sawLowerPrioOverwrite[name] {
			var canon func(lo, hi, depth int)
			canon = func(lo, hi, depth int) {
				if lo >= hi {
					return
				}
				best := lo
				for i := lo; i < hi; i++ {
					if rs[i].prio > rs[best].prio {
						best = i
					}
				}
				if rs[best].depth != depth {
					w.Fail("invariant", "canonical-depth", "collection %q: key %q is at depth %d, the canonical treap puts it at depth %d", name, rs[best].key, rs[best].depth, depth)
				}
				canon(lo, best, depth+1)
				canon(best+1, hi, depth+1)
			}
			canon(0, len(rs), 0)
		}
	}
}

// ---------------------------------------------------------------- reference counting (C15)

// CheckRefLive: every cached item reachable from an open handle has a positive
// count; no count ever went negative.
func (w *World) CheckRefLive() {
	if w.RC == nil {
		return
	}
	for _, m := range w.RC.Neg {
		w.Fail("refcount", "negative-count", "%s", m)
	}
	if !Instrumented {
		return
	}
	byPtr := map[uintptr]*gkvlite.Item{}
	for it := range w.RC.Counts {
		byPtr[itemPtr(it)] = it
	}
	for _, h := range w.handles() {
		for _, name := range h.st.GetCollectionNames() {
			c := h.st.GetCollection(name)
			for _, n := range Walk(c) {
				if !n.ItemCached {
					continue
				}
				it := byPtr[n.ItemPtr]
				cnt := 0
				if it != nil {
					cnt = w.RC.Counts[it]
				}
				if cnt <= 0 {
					w.Fail("refcount", "reachable-item-nonpositive", "item %q reachable from collection %q of %s has count %d", n.Key, name, h.label, cnt)
					return
				}
			}
		}
	}
}

// CloseAllAndCheckRefs closes snapshots and the store in the given order
// (order: permutation index) and requires every count to be zero.
func (w *World) CloseAllAndCheckRefs(snapsFirst bool) {
	if w.RC == nil {
		return
	}
	w.begin("CloseAll", true, false)
	w.closeIters()
	closeSnaps := func() {
		for _, sn := range w.Snaps {
			if !sn.Closed {
				sn.St.Close()
				sn.Closed = true
			}
		}
	}
	if snapsFirst {
		closeSnaps()
	}
	if !w.Closed {
		w.St.Close()
		w.Closed = true
	}
	if !snapsFirst {
		closeSnaps()
	}
	Quiesce() // let closed iterators' producers unwind and release their pins
	if !Instrumented {
		return // real goroutines: no quiescence guarantee, the count is decided on the instrumented build
	}
	for _, m := range w.RC.Neg {
		w.Fail("refcount", "negative-count", "%s", m)
	}
	var left []string
	total := 0
	for it, n := range w.RC.Counts {
		if n != 0 {
			left = append(left, fmt.Sprintf("%q:%d", it.Key, n))
			total += n
		}
	}
	sort.Strings(left)
	if total-w.pendingGetRefs != 0 || (w.pendingGetRefs == 0 && len(left) > 0) {
		w.Fail("refcount", "leak-after-close", "after closing the store and all snapshots %d references remain (%d of them taken by Get/Exist on behalf of the caller): %s", total, w.pendingGetRefs, strings.Join(left, " "))
	}
}
