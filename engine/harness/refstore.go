package harness

import (
	"bytes"
	"fmt"
	"sort"
	"strings"
)

// Comparators known to the harness.  Each supplies Below(k) (a target that is
// <= every key >= k ... in practice: <= k and > everything smaller) and Above(k).
type Cmp struct {
	Name string
	Fn   func(a, b []byte) int
}

func cmpBytes(a, b []byte) int { return bytes.Compare(a, b) }
func cmpRev(a, b []byte) int   { return bytes.Compare(b, a) }
func cmpLen(a, b []byte) int {
	if len(a) != len(b) {
		if len(a) < len(b) {
			return -1
		}
		return 1
	}
	return bytes.Compare(a, b)
}

// cmpBytesWrapped is order-equivalent to bytes.Compare but a distinct function.
func cmpBytesWrapped(a, b []byte) int {
	c := bytes.Compare(a, b)
	if c < 0 {
		return -7
	}
	if c > 0 {
		return 7
	}
	return 0
}

// cmpFactory returns closures that share one code pointer and differ only in
// captured state (a comparator may not be identified by its code address).
//
//go:noinline
func cmpFactory(rev bool) func(a, b []byte) int {
	return func(a, b []byte) int {
		c := bytes.Compare(a, b)
		if rev {
			c = -c
		}
		if c < 0 {
			return -7
		}
		if c > 0 {
			return 7
		}
		return 0
	}
}

var Cmps = map[string]func(a, b []byte) int{
	"bytes": cmpBytes,
	"wrap":  cmpFactory(false),
	"rev":   cmpFactory(true),
	"len":   cmpLen,
}

// OrderOf returns the canonical order name of a comparator id.
func OrderOf(id string) string { return orderOf(id) }

// orderOf returns the canonical order name of a comparator id.
func orderOf(id string) string {
	if id == "wrap" || id == "" || id == "nil" {
		return "bytes"
	}
	return id
}

// LowTarget returns a target that compares <= every key of keys under cmp
// (used to start a complete ascending visit); HighTarget one that compares >
// every key (for a complete descending visit).  Keys are never empty.
func LowTarget(cmp string, sortedKeys [][]byte) []byte {
	switch orderOf(cmp) {
	case "rev":
		// smallest under rev = bytes-largest; a target above it in bytes order
		if len(sortedKeys) == 0 {
			return []byte{0xff, 0xff, 0xff, 0xff}
		}
		k := sortedKeys[0]
		return append(append([]byte(nil), k...), 0)
	default:
		return []byte{}
	}
}

func HighTarget(cmp string, sortedKeys [][]byte) []byte {
	switch orderOf(cmp) {
	case "rev":
		return []byte{}
	default:
		if len(sortedKeys) == 0 {
			return []byte{0xff}
		}
		k := sortedKeys[len(sortedKeys)-1]
		return append(append([]byte(nil), k...), 0)
	}
}

// RItem is a model item.
type RItem struct {
	Val  []byte
	Prio int32
}

// RColl is a model collection.
type RColl struct {
	Cmp   string
	Items map[string]RItem
}

func (c *RColl) Clone() *RColl {
	n := &RColl{Cmp: c.Cmp, Items: make(map[string]RItem, len(c.Items))}
	for k, v := range c.Items {
		n.Items[k] = v
	}
	return n
}

// SortedKeys under the collection's comparator.
func (c *RColl) SortedKeys() [][]byte {
	fn := Cmps[orderOf(c.Cmp)]
	ks := make([][]byte, 0, len(c.Items))
	for k := range c.Items {
		ks = append(ks, []byte(k))
	}
	sort.Slice(ks, func(i, j int) bool { return fn(ks[i], ks[j]) < 0 })
	return ks
}

func (c *RColl) Totals() (uint64, uint64) {
	var b uint64
	for k, v := range c.Items {
		b += uint64(len(k) + len(v.Val))
	}
	return uint64(len(c.Items)), b
}

// RState is a model store state.
type RState struct {
	Colls map[string]*RColl
	End   int64 // file offset of the end of the root record that made this state durable (flush stack entries)
}

func NewRState() *RState { return &RState{Colls: map[string]*RColl{}} }

func (s *RState) Clone() *RState {
	n := &RState{Colls: make(map[string]*RColl, len(s.Colls)), End: s.End}
	for k, v := range s.Colls {
		n.Colls[k] = v.Clone()
	}
	return n
}

func (s *RState) Names() []string {
	ns := make([]string, 0, len(s.Colls))
	for k := range s.Colls {
		ns = append(ns, k)
	}
	sort.Strings(ns)
	return ns
}

// Canon returns a canonical text form of the state (comparator-independent
// content; the comparator name is included).
func (s *RState) Canon() string {
	var sb strings.Builder
	for _, n := range s.Names() {
		c := s.Colls[n]
		fmt.Fprintf(&sb, "%q[%s]{", n, orderOf(c.Cmp))
		ks := make([]string, 0, len(c.Items))
		for k := range c.Items {
			ks = append(ks, k)
		}
		sort.Strings(ks)
		for _, k := range ks {
			it := c.Items[k]
			if len(it.Val) > 12 {
				fmt.Fprintf(&sb, "%q:%d:#%d/%x,", trunc(k), it.Prio, len(it.Val), hashBytes(it.Val))
			} else {
				fmt.Fprintf(&sb, "%q:%d:%q,", trunc(k), it.Prio, it.Val)
			}
		}
		sb.WriteString("}")
	}
	return sb.String()
}

func trunc(k string) string {
	if len(k) > 16 {
		return fmt.Sprintf("%s..#%d/%x", k[:4], len(k), hashBytes([]byte(k)))
	}
	return k
}

func hashBytes(b []byte) uint64 {
	h := uint64(1469598103934665603)
	for _, c := range b {
		h ^= uint64(c)
		h *= 1099511628211
	}
	return h
}

// HashString is FNV-1a over a string.
func HashString(s string) uint64 { return hashBytes([]byte(s)) }

// RefStore is the reference model of a file-backed store: the current state
// plus the stack of durable states, one per successful, unreverted Flush.
type RefStore struct {
	Cur     *RState
	Flushed []*RState
}

func NewRefStore() *RefStore { return &RefStore{Cur: NewRState()} }

// Durable returns the state a re-open must yield.
func (r *RefStore) Durable() *RState {
	if len(r.Flushed) == 0 {
		return NewRState()
	}
	return r.Flushed[len(r.Flushed)-1]
}

func (r *RefStore) Flush(end int64) {
	s := r.Cur.Clone()
	s.End = end
	r.Flushed = append(r.Flushed, s)
}

// Revert pops the newest durable state and makes the one below current.
func (r *RefStore) Revert() {
	if len(r.Flushed) > 0 {
		r.Flushed = r.Flushed[:len(r.Flushed)-1]
	}
	r.Cur = r.Durable().Clone()
}

// Reopen makes the durable state current.
func (r *RefStore) Reopen() { r.Cur = r.Durable().Clone() }

func (r *RefStore) Clone() *RefStore {
	n := &RefStore{Cur: r.Cur.Clone()}
	for _, f := range r.Flushed {
		n.Flushed = append(n.Flushed, f.Clone())
	}
	return n
}
