package harness

import (
	"bytes"
	"fmt"
	"sort"
	"strings"
	"sync"

	"github.com/cbehopkins/gkvlite"
)

// SchedWorld is the shared state of one concurrent execution (schedx): the
// real store, the per-collection list of versions published by the single
// mutator with their publication instants on the logical clock, and the
// call/return log of the readers and the flusher.
type SchedWorld struct {
	File  *MemFile
	St    *gkvlite.Store
	Colls map[string]*gkvlite.Collection

	mu       sync.Mutex
	Versions map[string][]*RColl // per collection: V0 (initial) .. Vn
	// Versions[c][k+1] became visible no earlier than PubsLo[c][k] and
	// Versions[c][k] was visible no later than Pubs[c][k].  Under the scheduler
	// both are the instant of the successful rootCAS; on the pristine build
	// (free-running validation) they are the start and the end of the mutator's call.
	Pubs   map[string][]int64
	PubsLo map[string][]int64

	Snap    *gkvlite.Store // optional snapshot taken during setup (contents = V0 of each collection)
	Reads   []ReadRec
	Flushes []FlushRec
	Viols   []Viol
	Done    int
	Hist    []string
}

// ReadRec is one completed read-only call.
type ReadRec struct {
	Thread     int
	Coll       string
	Kind       string
	Arg        string
	Start, End int64
	Result     string
}

// FlushRec is one completed Flush call.
type FlushRec struct {
	Start, End int64
	Err        error
}

func NewSchedWorld() *SchedWorld {
	return &SchedWorld{Colls: map[string]*gkvlite.Collection{}, Versions: map[string][]*RColl{}, Pubs: map[string][]int64{}, PubsLo: map[string][]int64{}}
}

// MarkDone / DoneCount: thread completion (lock-protected for the free-running pass).
func (s *SchedWorld) MarkDone() { s.mu.Lock(); s.Done++; s.mu.Unlock() }
func (s *SchedWorld) DoneCount() int {
	s.mu.Lock()
	defer s.mu.Unlock()
	return s.Done
}

func (s *SchedWorld) Fail(oracle, sig, format string, a ...interface{}) {
	s.mu.Lock()
	defer s.mu.Unlock()
	if len(s.Viols) < 6 {
		s.Viols = append(s.Viols, Viol{Oracle: oracle, Sig: oracle + ":" + sig, Msg: fmt.Sprintf(format, a...)})
	}
}

// Open creates the store on a fresh file.
func (s *SchedWorld) Open() {
	s.File = &MemFile{}
	st, err := gkvlite.NewStore(s.File)
	if err != nil {
		s.Fail("setup", "open", "NewStore: %v", err)
		return
	}
	s.St = st
}

// AddColl registers a collection with its initial (sequentially built) content.
func (s *SchedWorld) AddColl(name string) {
	s.Colls[name] = s.St.SetCollection(name, nil)
	s.Versions[name] = []*RColl{{Cmp: "nil", Items: map[string]RItem{}}}
}

func (s *SchedWorld) cur(name string) *RColl { v := s.Versions[name]; return v[len(v)-1] }

// SeqSet / SeqDelete are used while building the initial store (no other
// thread is running): they fold into V0.
func (s *SchedWorld) SeqSet(name string, key []byte, prio int32, val []byte) {
	BeginOp("setup")
	if err := s.Colls[name].SetItem(&gkvlite.Item{Key: append([]byte{}, key...), Val: append([]byte{}, val...), Priority: prio}); err != nil {
		s.Fail("setup", "set", "%v", err)
	}
	s.Versions[name][0].Items[string(key)] = RItem{Val: append([]byte{}, val...), Prio: prio}
}

func (s *SchedWorld) SeqFlush() {
	BeginOp("setup")
	if err := s.St.Flush(); err != nil {
		s.Fail("setup", "flush", "%v", err)
	}
}

// SeqReopen closes the store and opens the file again (lazy loading will then
// happen inside the concurrent part).
func (s *SchedWorld) SeqReopen() {
	BeginOp("setup")
	s.St.Close()
	st, err := gkvlite.NewStore(s.File)
	if err != nil {
		s.Fail("setup", "reopen", "%v", err)
		return
	}
	s.St = st
	for n := range s.Colls {
		s.Colls[n] = st.GetCollection(n)
	}
}

// StartConcurrent installs the publication hook; from now on every successful
// rootCAS of the mutator is a publication instant.
func (s *SchedWorld) StartConcurrent() {
	for n := range s.Pubs {
		s.Pubs[n] = nil
		s.PubsLo[n] = nil
	}
	byColl := map[interface{}]string{}
	for n, c := range s.Colls {
		byColl[c] = n
	}
	SetEventHook(func(kind string, obj interface{}) {
		if kind != "rootCAS" {
			return
		}
		if n, ok := byColl[obj]; ok {
			t := Tick()
			s.Pubs[n] = append(s.Pubs[n], t)
			s.PubsLo[n] = append(s.PubsLo[n], t)
		}
	})
}

// MutSet / MutDelete are the mutator's operations.
func (s *SchedWorld) MutSet(name string, key []byte, prio int32, val []byte) {
	BeginOp("Set(" + name + "," + string(key) + ")")
	before := len(s.Pubs[name])
	t0 := Tick()
	err := s.Colls[name].SetItem(&gkvlite.Item{Key: append([]byte{}, key...), Val: append([]byte{}, val...), Priority: prio})
	if err != nil {
		s.Fail("concurrent", "mutator-error", "SetItem(%s,%s) returned %v", name, key, err)
		return
	}
	nv := s.cur(name).Clone()
	nv.Items[string(key)] = RItem{Val: append([]byte{}, val...), Prio: prio}
	s.Versions[name] = append(s.Versions[name], nv)
	if len(s.Pubs[name]) != before+1 {
		// no publication hook (pristine build, or rootCAS not found by the
		// generator): the version appeared somewhere inside the call
		s.Pubs[name] = append(s.Pubs[name][:before], Tick())
		s.PubsLo[name] = append(s.PubsLo[name][:before], t0)
	}
}

func (s *SchedWorld) MutDelete(name string, key []byte) {
	BeginOp("Del(" + name + "," + string(key) + ")")
	before := len(s.Pubs[name])
	t0 := Tick()
	_, present := s.cur(name).Items[string(key)]
	was, err := s.Colls[name].Delete(key)
	if err != nil {
		s.Fail("concurrent", "mutator-error", "Delete(%s,%s) returned %v", name, key, err)
		return
	}
	if was != present {
		s.Fail("concurrent", "delete-result", "Delete(%s,%s) reported %v, key present=%v", name, key, was, present)
	}
	if !present {
		return // no publication
	}
	nv := s.cur(name).Clone()
	delete(nv.Items, string(key))
	s.Versions[name] = append(s.Versions[name], nv)
	if len(s.Pubs[name]) != before+1 {
		s.Pubs[name] = append(s.Pubs[name][:before], Tick())
		s.PubsLo[name] = append(s.PubsLo[name][:before], t0)
	}
}

func (s *SchedWorld) MutEvict(name string) {
	BeginOp("Evict(" + name + ")")
	s.Colls[name].EvictSomeItems()
}

// canon helpers: what a read of kind k returns on version v.
func expectRead(v *RColl, kind, arg string) string {
	keys := v.SortedKeys()
	switch kind {
	case "Get":
		if it, ok := v.Items[arg]; ok {
			return fmt.Sprintf("%q", it.Val)
		}
		return "nil"
	case "Totals":
		n, b := v.Totals()
		return fmt.Sprintf("%d,%d", n, b)
	case "Min":
		if len(keys) == 0 {
			return "nil"
		}
		return fmt.Sprintf("%q", keys[0])
	case "Max":
		if len(keys) == 0 {
			return "nil"
		}
		return fmt.Sprintf("%q", keys[len(keys)-1])
	case "Asc", "Snap":
		var sb strings.Builder
		for _, k := range keys {
			fmt.Fprintf(&sb, "%s=%s;", k, v.Items[string(k)].Val)
		}
		return sb.String()
	case "Desc":
		var sb strings.Builder
		for i := len(keys) - 1; i >= 0; i-- {
			fmt.Fprintf(&sb, "%s=%s;", keys[i], v.Items[string(keys[i])].Val)
		}
		return sb.String()
	case "KeysAsc":
		var sb strings.Builder
		for _, k := range keys {
			fmt.Fprintf(&sb, "%s;", k)
		}
		return sb.String()
	case "KeysDesc":
		var sb strings.Builder
		for i := len(keys) - 1; i >= 0; i-- {
			fmt.Fprintf(&sb, "%s;", keys[i])
		}
		return sb.String()
	case "AscStop1":
		if len(keys) == 0 {
			return ""
		}
		return fmt.Sprintf("%s=%s;", keys[0], v.Items[string(keys[0])].Val)
	}
	return "?"
}

func (s *SchedWorld) record(name, kind, arg string, start int64, res string, err error) {
	if err != nil {
		s.Fail("concurrent", "reader-error-"+kind, "%s(%s,%s) returned error %v", kind, name, arg, err)
		return
	}
	end := Tick()
	s.mu.Lock()
	s.Reads = append(s.Reads, ReadRec{Thread: ThreadID(), Coll: name, Kind: kind, Arg: arg, Start: start, End: end, Result: res})
	s.mu.Unlock()
}

// Reader operations.
func (s *SchedWorld) RGet(name string, key []byte) {
	BeginOp("Get")
	t0 := Tick()
	v, err := s.Colls[name].Get(key)
	r := "nil"
	if v != nil {
		r = fmt.Sprintf("%q", v)
	}
	s.record(name, "Get", string(key), t0, r, err)
}

func (s *SchedWorld) RTotals(name string) {
	BeginOp("Totals")
	t0 := Tick()
	n, b, err := s.Colls[name].GetTotals()
	s.record(name, "Totals", "", t0, fmt.Sprintf("%d,%d", n, b), err)
}

func (s *SchedWorld) RMinMax(name string, max bool) {
	BeginOp("MinMax")
	t0 := Tick()
	var it *gkvlite.Item
	var err error
	kind := "Min"
	if max {
		kind = "Max"
		it, err = s.Colls[name].MaxItem(true)
	} else {
		it, err = s.Colls[name].MinItem(true)
	}
	r := "nil"
	if it != nil {
		r = fmt.Sprintf("%q", it.Key)
	}
	s.record(name, kind, "", t0, r, err)
}

// RVisit: a whole ascending/descending visit; the visitor is a scheduling point.
func (s *SchedWorld) RVisit(name string, desc bool, stopAfter int) {
	BeginOp("Visit")
	t0 := Tick()
	var sb strings.Builder
	n := 0
	v := func(it *gkvlite.Item) bool {
		YieldCallback()
		fmt.Fprintf(&sb, "%s=%s;", it.Key, it.Val)
		n++
		return stopAfter <= 0 || n < stopAfter
	}
	var err error
	kind := "Asc"
	if desc {
		kind = "Desc"
		err = s.Colls[name].VisitItemsDescend([]byte{0xff, 0xff}, true, v)
	} else {
		err = s.Colls[name].VisitItemsAscend([]byte{}, true, v)
	}
	if stopAfter == 1 && !desc {
		kind = "AscStop1"
	}
	s.record(name, kind, "", t0, sb.String(), err)
}

// RVisitKeyOnly: a whole visit without values (its result is not compared with
// the values, only the keys).
func (s *SchedWorld) RVisitKeyOnly(name string, desc bool) {
	BeginOp("VisitKeyOnly")
	t0 := Tick()
	var sb strings.Builder
	v := func(it *gkvlite.Item) bool {
		YieldCallback()
		fmt.Fprintf(&sb, "%s;", it.Key)
		return true
	}
	var err error
	if desc {
		err = s.Colls[name].VisitItemsDescend([]byte{0xff, 0xff}, false, v)
	} else {
		err = s.Colls[name].VisitItemsAscend([]byte{}, false, v)
	}
	kind := "KeysAsc"
	if desc {
		kind = "KeysDesc"
	}
	s.record(name, kind, "", t0, sb.String(), err)
}

// RSnapshot: Snapshot(), then read it completely; the snapshot must show one
// version current during the Snapshot() call.
func (s *SchedWorld) RSnapshot(name string) {
	BeginOp("Snapshot")
	t0 := Tick()
	sn := s.St.Snapshot()
	t1 := Tick()
	c := sn.GetCollection(name)
	var sb strings.Builder
	err := c.VisitItemsAscend([]byte{}, true, func(it *gkvlite.Item) bool {
		YieldCallback()
		fmt.Fprintf(&sb, "%s=%s;", it.Key, it.Val)
		return true
	})
	if err != nil {
		s.Fail("concurrent", "reader-error-Snap", "visit of a snapshot returned %v", err)
		return
	}
	s.mu.Lock()
	s.Reads = append(s.Reads, ReadRec{Thread: ThreadID(), Coll: name, Kind: "Snap", Start: t0, End: t1, Result: sb.String()})
	s.mu.Unlock()
	sn.Close()
}

// SeqSnapshotAndReplace takes a snapshot and then replaces collection name by
// SetCollection on the same name (new handle, same items).
func (s *SchedWorld) SeqSnapshotAndReplace(name string) {
	BeginOp("setup")
	s.Snap = s.St.Snapshot()
	s.Colls[name] = s.St.SetCollection(name, nil)
}

// MutSetCollection: the mutator replaces the handle registered under an existing
// name (the contents stay; no new version is published).
func (s *SchedWorld) MutSetCollection(name string) {
	BeginOp("SetCollection")
	c := s.St.SetCollection(name, nil)
	s.mu.Lock()
	s.Colls[name] = c
	s.mu.Unlock()
}

// RSnapGet reads key through the setup snapshot: it must always see V0.
func (s *SchedWorld) RSnapGet(name string, key []byte) {
	BeginOp("SnapGet")
	c := s.Snap.GetCollection(name)
	v, err := c.Get(key)
	want := "nil"
	if it, ok := s.Versions[name][0].Items[string(key)]; ok {
		want = fmt.Sprintf("%q", it.Val)
	}
	got := "nil"
	if v != nil {
		got = fmt.Sprintf("%q", v)
	}
	if err != nil || got != want {
		s.Fail("concurrent", "snapshot-read", "Get(%s) through the snapshot returned %s (err %v), the snapshot holds %s", key, got, err, want)
	}
}

// RStats reads the allocation statistics (takes the three free-list locks).
func (s *SchedWorld) RStats(name string) {
	BeginOp("AllocStats")
	s.Colls[name].AllocStats()
	m := map[string]uint64{}
	s.St.Stats(m)
}

// SeqSnapshot takes a snapshot during setup (contents = V0 of every collection).
func (s *SchedWorld) SeqSnapshot() {
	BeginOp("setup")
	s.Snap = s.St.Snapshot()
}

// CheckSnapshot: the setup snapshot still shows V0 of every collection.
func (s *SchedWorld) CheckSnapshot() {
	if s.Snap == nil {
		return
	}
	BeginOp("final-snapshot")
	for n := range s.Colls {
		c := s.Snap.GetCollection(n)
		if c == nil {
			s.Fail("concurrent", "snapshot-lost-collection", "the snapshot lost collection %s", n)
			continue
		}
		want := expectRead(s.Versions[n][0], "Asc", "")
		var sb strings.Builder
		err := c.VisitItemsAscend([]byte{}, true, func(it *gkvlite.Item) bool {
			fmt.Fprintf(&sb, "%s=%s;", it.Key, it.Val)
			return true
		})
		if err != nil || sb.String() != want {
			s.Fail("concurrent", "snapshot-changed", "after all threads finished the snapshot of collection %s reads %q (err %v), it was taken on %q", n, sb.String(), err, want)
		}
	}
}

// FFlush is the flusher's operation.
func (s *SchedWorld) FFlush() {
	BeginOp("Flush")
	t0 := Tick()
	err := s.St.Flush()
	end := Tick()
	s.mu.Lock()
	s.Flushes = append(s.Flushes, FlushRec{Start: t0, End: end, Err: err})
	s.mu.Unlock()
	if err != nil {
		s.Fail("concurrent", "flush-error", "Flush returned %v", err)
	}
}

// lifetime of version j of collection c: [from, to)
func (s *SchedWorld) lifetime(c string, j int) (int64, int64) {
	from, to := int64(0), int64(1)<<62
	if j > 0 {
		from = s.PubsLo[c][j-1]
	}
	if j < len(s.Pubs[c]) {
		to = s.Pubs[c][j]
	}
	return from, to
}

// CheckReads: every read returned the contents of one single version that was
// current at some instant between the call's start and end.
func (s *SchedWorld) CheckReads() {
	for _, r := range s.Reads {
		vs := s.Versions[r.Coll]
		if len(s.Pubs[r.Coll]) != len(vs)-1 {
			s.Fail("concurrent", "publication-count", "collection %s: %d versions but %d publication instants", r.Coll, len(vs), len(s.Pubs[r.Coll]))
			return
		}
		ok := false
		var cands []string
		for j := range vs {
			from, to := s.lifetime(r.Coll, j)
			if from <= r.End && to > r.Start {
				e := expectRead(vs[j], r.Kind, r.Arg)
				cands = append(cands, fmt.Sprintf("V%d:%s", j, e))
				if e == r.Result {
					ok = true
				}
			}
		}
		if !ok {
			s.Fail("concurrent", "read-not-one-version-"+r.Kind, "thread %d: %s(%s,%s) returned %q in the window [%d,%d]; the versions current in that window would give %v", r.Thread, r.Kind, r.Coll, r.Arg, r.Result, r.Start, r.End, cands)
		}
	}
}

// CheckFinal: no lost update (the final contents are Vn).
func (s *SchedWorld) CheckFinal() {
	BeginOp("final")
	names := make([]string, 0, len(s.Colls))
	for n := range s.Colls {
		names = append(names, n)
	}
	sort.Strings(names)
	for _, n := range names {
		want := expectRead(s.cur(n), "Asc", "")
		var sb strings.Builder
		err := s.Colls[n].VisitItemsAscend([]byte{}, true, func(it *gkvlite.Item) bool {
			fmt.Fprintf(&sb, "%s=%s;", it.Key, it.Val)
			return true
		})
		if err != nil || sb.String() != want {
			s.Fail("concurrent", "lost-update", "after all threads finished collection %s holds %q (err %v), the mutator's last version is %q", n, sb.String(), err, want)
		}
		cnt, b, _ := s.Colls[n].GetTotals()
		wn, wb := s.cur(n).Totals()
		if cnt != wn || b != wb {
			s.Fail("concurrent", "final-totals", "after all threads finished collection %s has totals (%d,%d), expected (%d,%d)", n, cnt, b, wn, wb)
		}
	}
}

// CheckFlushes: every root record written by a concurrent Flush holds, per
// collection, a version that was current during that Flush, captured in
// collection-name order.
func (s *SchedWorld) CheckFlushes(rootsBefore int) {
	roots := AllRoots(s.File.Data)
	if len(roots)-rootsBefore != len(s.Flushes) {
		s.Fail("concurrent", "flush-root-count", "%d Flush calls returned nil but the file gained %d root records", len(s.Flushes), len(roots)-rootsBefore)
		return
	}
	for fi, fl := range s.Flushes {
		r := roots[rootsBefore+fi]
		if err := DecodeTrees(s.File.Data, r); err != nil {
			s.Fail("concurrent", "flush-undecodable", "root record %d: %v", fi, err)
			continue
		}
		names := make([]string, 0, len(r.Colls))
		for n := range r.Colls {
			names = append(names, n)
		}
		sort.Strings(names)
		// the scenarios never remove a collection: every one of them is in every root record
		for n := range s.Colls {
			if _, ok := r.Colls[n]; !ok {
				s.Fail("concurrent", "flush-collection-missing", "Flush %d (window [%d,%d]) wrote a root record without collection %s (it holds %v)", fi, fl.Start, fl.End, n, names)
			}
		}
		// per collection: the set of versions matching the persisted content and current in the window
		type span struct{ from, to int64 }
		var cands [][]span
		for _, n := range names {
			var sb strings.Builder
			for _, it := range r.Colls[n].Items {
				fmt.Fprintf(&sb, "%s=%s;", it.Key, it.Val)
			}
			got := sb.String()
			var sp []span
			for j, v := range s.Versions[n] {
				from, to := s.lifetime(n, j)
				if from <= fl.End && to > fl.Start && expectRead(v, "Asc", "") == got {
					if from < fl.Start {
						from = fl.Start
					}
					if to > fl.End+1 {
						to = fl.End + 1
					}
					sp = append(sp, span{from, to})
				}
			}
			if len(sp) == 0 {
				s.Fail("concurrent", "flush-not-current-version", "Flush %d (window [%d,%d]) persisted %q for collection %s, which is not a version that was current during the call", fi, fl.Start, fl.End, got, n)
			}
			cands = append(cands, sp)
			if err := r.Colls[n].CheckAggregates(); err != nil {
				s.Fail("concurrent", "flush-aggregates", "Flush %d collection %s: %v", fi, n, err)
			}
		}
		// capture instants t1 <= t2 <= ... in name order: greedy earliest
		t := int64(-1)
		for i, sp := range cands {
			best := int64(-1)
			for _, x := range sp {
				c := x.from
				if c < t {
					c = t
				}
				if c < x.to && (best < 0 || c < best) {
					best = c
				}
			}
			if len(sp) > 0 && best < 0 {
				s.Fail("concurrent", "flush-order", "Flush %d persisted collection %s in a state older than it had when the earlier-named collections were captured", fi, names[i])
				break
			}
			if best >= 0 {
				t = best
			}
		}
	}
	_ = bytes.Equal
}
