package harness

import (
	"bytes"
	"encoding/json"
	"fmt"
	"sort"

	"github.com/cbehopkins/gkvlite"
)

// CopyTo copies the original store (src < 0) or snapshot src into a fresh file
// and checks C11: the returned store equals the source's model state; with
// flushEvery > 0 the destination file re-opens to that state and holds no
// superseded item versions; the source is left alone (Observe at the end of
// the replay, file monitor during the call).
func (w *World) CopyTo(src int, flushEvery int) {
	st, exp := w.St, w.M.Cur
	label := fmt.Sprintf("CopyTo(orig,%d)", flushEvery)
	if src >= 0 {
		st, exp = w.Snaps[src].St, w.Snaps[src].Exp.Cur
		label = fmt.Sprintf("CopyTo(s%d,%d)", src, flushEvery)
	}
	w.begin(label, true, false)
	w.Trans++
	var before []byte
	if w.File != nil {
		before = append([]byte(nil), w.File.Data...)
	}
	dst := &MemFile{}
	if w.DstFault != nil {
		w.DstFault(dst)
	}
	res, err := st.CopyTo(dst, flushEvery)
	dst.FaultMode = 0
	if dst.FaultsHit > 0 {
		// fault on the destination file: error required, source untouched
		w.FaultOps = append(w.FaultOps, label)
		if err == nil {
			w.Fail("fault", "swallowed-in-CopyTo", "%s reported success although the destination file failed a call", label)
		}
		if res != nil && err != nil {
			w.Fail("fault", "data-with-error-in-CopyTo", "%s returned a store alongside the error", label)
		}
		w.logf("%s=FAULT(dst)", label)
		if err != nil || res == nil {
			return
		}
		// success was reported: the copy is judged like any other
	} else if w.faulted(label, err, true, err != nil && res != nil) {
		return
	}
	w.logf("%s=%s", label, errs(err))
	if err != nil || res == nil {
		w.Fail("copyto", "error", "%s returned (%v, %v)", label, res, err)
		return
	}
	if w.File != nil && !bytes.Equal(before, w.File.Data) {
		w.Fail("copyto", "source-file-changed", "%s modified the source file", label)
	}
	save := w.RC
	w.RC = nil
	w.observe(label+"/result", res, exp, "copyto", true)
	w.RC = save
	if flushEvery > 0 {
		w.checkImage(dst.Data, exp, "copyto", label+"/reopen")
		// compaction: over the trees of all root records of the destination
		// every key occurs in exactly one item record
		type kk struct{ coll, key string }
		recs := map[kk]map[int64]bool{}
		for _, r := range AllRoots(dst.Data) {
			if err := DecodeTrees(dst.Data, r); err != nil {
				w.Fail("copyto", "dest-undecodable", "%s: destination file: %v", label, err)
				break
			}
			for n, c := range r.Colls {
				for _, it := range c.Items {
					k := kk{n, string(it.Key)}
					if recs[k] == nil {
						recs[k] = map[int64]bool{}
					}
					recs[k][it.Off] = true
				}
			}
		}
		var dups []string
		for k, offs := range recs {
			if len(offs) > 1 {
				dups = append(dups, fmt.Sprintf("%s.%q x%d", k.coll, trunc(k.key), len(offs)))
			}
		}
		sort.Strings(dups)
		if len(dups) > 0 {
			w.Fail("copyto", "superseded-item-versions", "%s: the destination file holds several item records for the same key: %v", label, dups)
		}
		if w.Mon.Format {
			w.checkFormatImage(dst.Data, exp, label+"/dest")
		}
	} else if len(dst.Data) != 0 {
		w.Fail("copyto", "wrote-without-flush", "%s wrote %d bytes to the destination although flushEvery <= 0", label, len(dst.Data))
	}
	res.Close()
}

// CopyToExisting copies the original store into a destination file that already
// holds a store (a byte copy of the source file up to its last durable root
// record).  The destination is a store file like any other: CopyTo may only
// append to it (C09) - nothing below the end of its last root record may be
// written or cut off.
func (w *World) CopyToExisting(flushEvery int) {
	label := fmt.Sprintf("CopyTo(orig,%d -> file holding the last flush)", flushEvery)
	if w.File == nil || len(w.M.Flushed) == 0 {
		return
	}
	base := w.M.Flushed[len(w.M.Flushed)-1].End
	if base <= 0 || base > int64(len(w.File.Data)) {
		return
	}
	w.begin(label, true, false)
	w.Trans++
	dst := NewMemFileFrom(w.File.Data[:base])
	keep := append([]byte(nil), dst.Data...)
	bad := ""
	dst.OnCall = func(c *IOCall) {
		if bad != "" {
			return
		}
		if c.Op == "W" && c.Len > 0 && c.Off < base {
			bad = fmt.Sprintf("WriteAt(%d bytes at offset %d) below the end (%d) of the destination's last root record", c.Len, c.Off, base)
		}
		if c.Op == "T" {
			bad = fmt.Sprintf("Truncate(%d) of the destination", c.Off)
		}
	}
	res, err := w.St.CopyTo(dst, flushEvery)
	dst.OnCall = nil
	if w.faulted(label, err, true, err != nil && res != nil) {
		return
	}
	w.logf("%s=%s", label, errs(err))
	if err != nil || res == nil {
		w.Fail("copyto", "error", "%s returned (%v, %v)", label, res, err)
		return
	}
	if bad != "" {
		w.Fail("append", "copyto-destination-overwritten", "%s: %s", label, bad)
	}
	if int64(len(dst.Data)) < base || !bytes.Equal(dst.Data[:base], keep) {
		w.Fail("append", "copyto-destination-modified", "%s: bytes below the end of the destination's last root record changed", label)
	}
	// (contents are not compared: SetCollection on an existing name keeps what the
	// destination already had, so the result is a merge that no property specifies)
	for _, name := range w.M.Cur.Names() {
		if res.GetCollection(name) == nil {
			w.Fail("copyto", "collection-missing", "%s: the result has no collection %q", label, name)
		}
	}
	res.Close()
}

// checkFormatImage: the independent decoder accepts the last root of the image
// and reconstructs exp.
func (w *World) checkFormatImage(data []byte, exp *RState, label string) {
	r, err := DecodeLast(data, int64(len(data)))
	if err != nil {
		w.Fail("format", "tree-rejected", "%s: the independent decoder rejects the file: %v", label, err)
		return
	}
	if r == nil {
		if len(exp.Colls) != 0 {
			w.Fail("format", "no-root", "%s: no root record found", label)
		}
		return
	}
	if r.End != int64(len(data)) {
		w.Fail("format", "junk-after-root", "%s: %d bytes follow the last root record", label, int64(len(data))-r.End)
	}
	if d := diffStates(r.ToRState(), exp, true); d != "" {
		w.Fail("format", "decoded-state-differs", "%s: independent decoder reconstructs a different state: %s", label, d)
	}
	for n, c := range r.Colls {
		if err := c.CheckAggregates(); err != nil {
			w.Fail("format", "persisted-aggregates", "%s: collection %q: %v", label, n, err)
		}
	}
}

// BlockVisit / RandomVisit / Stats: read-only entry points (C09, C19).
func (w *World) BlockVisit(name string, withValue bool) {
	c := w.Colls[name]
	label := fmt.Sprintf("BlockEx(%s,%v)", name, withValue)
	w.begin(label, true, !withValue)
	w.Trans++
	n := 0
	err := c.VisitItemsAscendBlockEx(withValue, nil, func(*gkvlite.Item, uint64) bool { n++; return true })
	cnt, _ := w.M.Cur.Colls[name].Totals()
	if cnt > 0 && (err != nil || uint64(n) != cnt) {
		w.Fail("model", "blockex-count", "%s presented %d items (err %v), model %d", label, n, err, cnt)
	}
	w.logf("%s=%d", label, n)
}

func (w *World) RandomVisit(name string) {
	c := w.Colls[name]
	label := fmt.Sprintf("Random(%s)", name)
	w.begin(label, true, false)
	w.Trans++
	n := 0
	err := c.VisitItemsRandom(func(*gkvlite.Item, uint64) bool { n++; return true })
	cnt, _ := w.M.Cur.Colls[name].Totals()
	if cnt > 0 && (err != nil || uint64(n) != cnt) {
		w.Fail("model", "random-count", "%s presented %d items (err %v), model %d", label, n, err, cnt)
	}
	w.logf("%s=%d", label, n)
}

func (w *World) Stats() {
	w.begin("Stats", true, true)
	w.Trans++
	m := map[string]uint64{}
	w.St.Stats(m)
	for _, c := range w.Colls {
		c.AllocStats()
		c.Name()
		// MarshalJSON (the root location) is a read-only entry point as well
		if _, err := json.Marshal(c); err != nil {
			w.Fail("model", "marshal-error", "json.Marshal of a collection failed: %v", err)
		}
	}
	for _, sn := range w.Snaps {
		if sn.Closed {
			continue
		}
		for _, n := range sn.St.GetCollectionNames() {
			json.Marshal(sn.St.GetCollection(n))
		}
	}
	w.logf("Stats")
}
