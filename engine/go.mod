module gkvverif

go 1.21

require github.com/cbehopkins/gkvlite v0.0.0

replace github.com/cbehopkins/gkvlite => /repo
