// worker explores one shard of one property's profiles, or replays traces.
package main

import (
	"encoding/json"
	"flag"
	"fmt"
	"os"
	"runtime"
	"runtime/debug"
	"time"

	"gkvverif/explore"
	"gkvverif/harness"
	"gkvverif/props"
)

// ProfileResult is what one shard reports for one profile.
type ProfileResult struct {
	Profile     string
	Rule        string
	Executions  int64
	Skipped     int64
	Transitions int64
	NonTrivial  int64
	MaxPoints   int
	States      []uint64
	Outcomes    []uint64
	Found       []explore.Found
	SigCounts   map[string]int
	Samples     []string
	Traces      []explore.Trace
	Extra       map[string]int64
	Truncated   bool
	TruncReason string
	Diverged    []string
	WallS       float64
}

type WorkerResult struct {
	Prop         string
	Tier         string
	Shard        int
	Instrumented bool
	Profiles     []ProfileResult
	// trace replay
	TracesReplayed int
	TraceMismatch  []string
}

func main() {
	prop := flag.String("prop", "", "property id")
	tier := flag.String("tier", "quick", "quick|thorough")
	shard := flag.Int("shard", 0, "shard index")
	shards := flag.Int("shards", 1, "number of shards")
	deadline := flag.Float64("deadline", 0, "internal deadline in seconds (0 = none)")
	out := flag.String("out", "", "result file")
	traces := flag.Int("traces", 0, "max traces to record per profile")
	replayTraces := flag.String("replaytraces", "", "file with traces to replay and compare")
	replay := flag.String("replay", "", "replay one choice sequence: JSON {Profile, Choices}")
	only := flag.String("profile", "", "restrict to one profile")
	freerun := flag.Int("freerun", 0, "pristine build: run the FreeRun profiles free (real goroutines) this many executions each")
	flag.Parse()
	runtime.GOMAXPROCS(1)
	debug.SetGCPercent(400)
	spec := props.Registry[*prop]
	if spec == nil {
		fmt.Fprintln(os.Stderr, "unknown property", *prop)
		os.Exit(2)
	}
	profiles := spec.Profiles(*tier)
	res := WorkerResult{Prop: *prop, Tier: *tier, Shard: *shard, Instrumented: harness.Instrumented}
	find := func(name string) *props.Profile {
		for i := range profiles {
			if profiles[i].Name == name {
				return &profiles[i]
			}
		}
		return nil
	}
	switch {
	case *replay != "":
		var f explore.Found
		b, err := os.ReadFile(*replay)
		if err == nil {
			err = json.Unmarshal(b, &f)
		}
		if err != nil {
			fmt.Fprintln(os.Stderr, "replay file:", err)
			os.Exit(2)
		}
		p := find(f.Profile)
		if p == nil {
			fmt.Fprintln(os.Stderr, "unknown profile", f.Profile)
			os.Exit(2)
		}
		c := &explore.Chooser{Prefix: f.Choices}
		o := p.Exec(c)
		fmt.Printf("profile=%s history=[%s]\n", f.Profile, o.Sample)
		if c.Diverged != "" {
			fmt.Println("DIVERGED:", c.Diverged)
			os.Exit(2)
		}
		fmt.Println("--- observation log")
		fmt.Println(o.Log)
		fmt.Printf("--- %d violation(s)\n", len(o.Viols))
		for _, v := range o.Viols {
			fmt.Printf("[%s] %s\n", v.Sig, v.Msg)
		}
		if len(o.Viols) > 0 {
			os.Exit(1)
		}
		return
	case *freerun > 0:
		// validation pass: the same harness bodies, real goroutines and channels
		runtime.GOMAXPROCS(4)
		for _, p := range profiles {
			if !p.FreeRun {
				continue
			}
			done := 0
			for rounds := 0; done < *freerun && rounds < *freerun; rounds++ {
				x := &explore.Explorer{Exec: p.Exec, Profile: p.Name, Budget: map[int]int{}, Shard: 0, Shards: 1, MaxExec: int64(*freerun - done)}
				x.Run()
				done += int(x.Executions)
				res.TracesReplayed += int(x.Executions)
				for _, f := range x.Found {
					if len(res.TraceMismatch) < 5 {
						res.TraceMismatch = append(res.TraceMismatch, fmt.Sprintf("free-running pass of profile %s on the pristine build: [%s] %s", p.Name, f.Viol.Sig, f.Viol.Msg))
					}
				}
				if x.Executions == 0 {
					break
				}
			}
		}
	case *replayTraces != "":
		var ts []explore.Trace
		b, err := os.ReadFile(*replayTraces)
		if err == nil {
			err = json.Unmarshal(b, &ts)
		}
		if err != nil {
			fmt.Fprintln(os.Stderr, "trace file:", err)
			os.Exit(2)
		}
		for i, t := range ts {
			if i%*shards != *shard {
				continue
			}
			p := find(t.Profile)
			if p == nil {
				continue
			}
			c := &explore.Chooser{Prefix: t.Choices}
			o := p.Exec(c)
			res.TracesReplayed++
			if o.Log != t.Log || len(o.Viols) > 0 {
				if len(res.TraceMismatch) < 5 {
					msg := fmt.Sprintf("profile %s choices %v: pristine build log differs from instrumented build\n--- instrumented\n%s\n--- pristine\n%s", t.Profile, t.Choices, t.Log, o.Log)
					for _, v := range o.Viols {
						msg += "\nviolation on pristine build: " + v.Msg
					}
					res.TraceMismatch = append(res.TraceMismatch, msg)
				}
			}
		}
	default:
		var dl time.Time
		start := time.Now()
		if *deadline > 0 {
			dl = start.Add(time.Duration(*deadline * float64(time.Second)))
		}
		for _, p := range profiles {
			if *only != "" && p.Name != *only {
				continue
			}
			t0 := time.Now()
			x := &explore.Explorer{Exec: p.Exec, Profile: p.Name, Budget: p.Budget, Shard: *shard, Shards: *shards,
				ShardLevel: p.ShardLevel, Deadline: dl, MaxTraces: *traces}
			x.Run()
			pr := ProfileResult{Profile: p.Name, Rule: p.Rule, Executions: x.Executions, Skipped: x.Skipped, Transitions: x.Transitions,
				NonTrivial: x.NonTrivial, MaxPoints: x.MaxPoints, Found: x.Found, SigCounts: x.SigCounts(), Samples: x.Samples,
				Traces: x.Traces, Extra: x.Extra, Truncated: x.Truncated, TruncReason: x.TruncReason, Diverged: x.Diverged,
				WallS: time.Since(t0).Seconds()}
			for h := range x.States {
				pr.States = append(pr.States, h)
			}
			for h := range x.Outcomes {
				pr.Outcomes = append(pr.Outcomes, h)
			}
			res.Profiles = append(res.Profiles, pr)
		}
	}
	b, _ := json.Marshal(res)
	if *out == "" {
		os.Stdout.Write(b)
	} else if err := os.WriteFile(*out, b, 0o644); err != nil {
		fmt.Fprintln(os.Stderr, err)
		os.Exit(2)
	}
}
