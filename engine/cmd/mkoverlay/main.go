// mkoverlay generates, from the gkvlite working tree as it is right now, the
// instrumented copy of package gkvlite that the checks explore, plus the
// `go build -overlay` description that mounts it (and the shim packages and
// the introspection file) on top of the untouched tree.
//
//	mkoverlay -repo /repo -engine /verif/engine -out <workdir>
//
// Transformations (DESIGN.md §3.1): T1 import seams, T2 go/chan rewriting,
// T3 yields in methods of nodeLoc/itemLoc/node, T4 introspection file,
// T5 sorted iteration over string-keyed maps, T6 publication hook in rootCAS,
// T8 copy-on-write discipline of the collections map.
package main

import (
	"bytes"
	"encoding/json"
	"flag"
	"fmt"
	"go/ast"
	"go/build"
	"go/format"
	"go/importer"
	"go/parser"
	"go/token"
	"go/types"
	"os"
	"path/filepath"
	"sort"
	"strings"
)

const shimBase = "github.com/cbehopkins/gkvlite/zzverif/"

var importSeams = map[string][2]string{
	"sync":        {"sync", shimBase + "vsync"},
	"sync/atomic": {"atomic", shimBase + "vatomic"},
	"math/rand":   {"rand", shimBase + "vrand"},
}

var yieldReceivers = map[string]bool{"nodeLoc": true, "itemLoc": true, "node": true}

// T7: lock-protected fields whose accesses are reported to the scheduler's
// lock-discipline check, per struct type.
var guardedFields = map[string]map[string]bool{
	"rootNodeLoc": {"refs": true, "chainedCollection": true, "chainedRootNodeLoc": true, "superseded": true},
}

// allocators (re)initialise objects that are not shared yet: not instrumented,
// and their result resets what is known about the object.
var allocatorFuncs = map[string]bool{"mkRootNodeLoc": true, "mkRootNodeLocVerifOrig": true, "freeRootNodeLoc": true}

type stats struct {
	Imports, GoStmts, ChanTypes, MakeChans, Sends, Recvs, Closes, RangeChans, Yields, MapRanges, CASHooks, Accesses, MapWrites, MapHooks int
	Unsupported                                                                                                                          []string
}

type rewriter struct {
	noGuard bool // current file is exempt from T7 (the introspection file reads without locks by design)
	fset    *token.FileSet
	info    *types.Info
	st      *stats
	tmp     int
}

func main() {
	repo := flag.String("repo", "/repo", "gkvlite working tree")
	engine := flag.String("engine", "/verif/engine", "engine directory (shims, introspection)")
	out := flag.String("out", "", "work directory for generated files")
	noYield := flag.Bool("noyield", false, "omit T3 yields")
	flag.Parse()
	if *out == "" {
		fatal("missing -out")
	}
	if err := os.MkdirAll(*out, 0o755); err != nil {
		fatal(err.Error())
	}
	ctx := build.Default
	ctx.BuildTags = append(ctx.BuildTags, "verif")
	pkg, err := ctx.ImportDir(*repo, 0)
	if err != nil {
		fatal("import dir: " + err.Error())
	}
	fset := token.NewFileSet()
	var files []*ast.File
	var names []string
	for _, f := range pkg.GoFiles {
		af, err := parser.ParseFile(fset, filepath.Join(*repo, f), nil, 0)
		if err != nil {
			fatal("parse: " + err.Error())
		}
		files = append(files, af)
		names = append(names, f)
	}
	// the introspection file is type-checked and rewritten with the package
	intro := filepath.Join(*engine, "introspect", "zz_verif_introspect.go")
	af, err := parser.ParseFile(fset, intro, nil, 0)
	if err != nil {
		fatal("parse introspect: " + err.Error())
	}
	files = append(files, af)
	names = append(names, "zz_verif_introspect.go")

	info := &types.Info{
		Types: map[ast.Expr]types.TypeAndValue{},
		Uses:  map[*ast.Ident]types.Object{},
		Defs:  map[*ast.Ident]types.Object{},
	}
	conf := types.Config{Importer: importer.ForCompiler(fset, "source", nil), Error: func(err error) {}}
	_, terr := conf.Check(pkg.ImportPath, fset, files, info)
	if terr != nil {
		// The tree must compile anyway; report but continue (the go build will say more).
		fmt.Fprintln(os.Stderr, "mkoverlay: type check:", terr)
	}
	st := &stats{}
	rw := &rewriter{fset: fset, info: info, st: st}
	replace := map[string]string{}
	for i, f := range files {
		rw.noGuard = strings.HasPrefix(names[i], "zz_verif_")
		rw.file(f, !*noYield)
		var buf bytes.Buffer
		if err := format.Node(&buf, fset, f); err != nil {
			fatal("print " + names[i] + ": " + err.Error())
		}
		dst := filepath.Join(*out, names[i])
		if err := os.WriteFile(dst, buf.Bytes(), 0o644); err != nil {
			fatal(err.Error())
		}
		replace[filepath.Join(*repo, names[i])] = dst
	}
	for _, shim := range []string{"vsched", "vsync", "vatomic", "vrand"} {
		dir := filepath.Join(*engine, "shim", shim)
		ents, err := os.ReadDir(dir)
		if err != nil {
			fatal(err.Error())
		}
		for _, e := range ents {
			if strings.HasSuffix(e.Name(), ".go") {
				replace[filepath.Join(*repo, "zzverif", shim, e.Name())] = filepath.Join(dir, e.Name())
			}
		}
	}
	ov, _ := json.MarshalIndent(map[string]interface{}{"Replace": replace}, "", " ")
	if err := os.WriteFile(filepath.Join(*out, "overlay.json"), ov, 0o644); err != nil {
		fatal(err.Error())
	}
	sj, _ := json.MarshalIndent(st, "", " ")
	os.WriteFile(filepath.Join(*out, "overlay-stats.json"), sj, 0o644)
	sort.Strings(st.Unsupported)
	for _, u := range st.Unsupported {
		fmt.Println("UNSUPPORTED-CONSTRUCT", u)
	}
}

func fatal(s string) {
	fmt.Fprintln(os.Stderr, "mkoverlay:", s)
	os.Exit(2)
}

func (rw *rewriter) pos(n ast.Node) string { return rw.fset.Position(n.Pos()).String() }

func sel(pkg, name string) ast.Expr {
	return &ast.SelectorExpr{X: ast.NewIdent(pkg), Sel: ast.NewIdent(name)}
}

func (rw *rewriter) chanTypeExpr(elem ast.Expr) ast.Expr {
	return &ast.StarExpr{X: &ast.IndexExpr{X: sel("vsched", "Chan"), Index: elem}}
}

func (rw *rewriter) isChan(e ast.Expr) bool {
	tv, ok := rw.info.Types[e]
	if !ok || tv.Type == nil {
		return false
	}
	_, ok = tv.Type.Underlying().(*types.Chan)
	return ok
}

func (rw *rewriter) isStringMap(e ast.Expr) bool {
	tv, ok := rw.info.Types[e]
	if !ok || tv.Type == nil {
		return false
	}
	m, ok := tv.Type.Underlying().(*types.Map)
	if !ok {
		return false
	}
	b, ok := m.Key().Underlying().(*types.Basic)
	return ok && b.Kind() == types.String
}

func (rw *rewriter) isBuiltin(id *ast.Ident, name string) bool {
	if id.Name != name {
		return false
	}
	_, ok := rw.info.Uses[id].(*types.Builtin)
	return ok
}

func (rw *rewriter) file(f *ast.File, yields bool) {
	// T1
	for _, im := range f.Imports {
		p := strings.Trim(im.Path.Value, "\"")
		if seam, ok := importSeams[p]; ok {
			if im.Name == nil {
				im.Name = ast.NewIdent(seam[0])
			}
			im.Path.Value = "\"" + seam[1] + "\""
			rw.st.Imports++
		}
	}
	// T6 must run before bodies are rewritten (it only renames)
	rw.casHook(f)
	rw.allocHook(f)
	rw.getCollHook(f)
	// statements and expressions
	for _, d := range f.Decls {
		switch d := d.(type) {
		case *ast.FuncDecl:
			if d.Body != nil {
				if !allocatorFuncs[d.Name.Name] && !rw.noGuard {
					rw.guardBlock(d.Body)
				}
				d.Body = rw.block(d.Body)
				if yields && d.Recv != nil && len(d.Recv.List) == 1 && yieldReceivers[recvBase(d.Recv.List[0].Type)] {
					call := &ast.ExprStmt{X: &ast.CallExpr{Fun: sel("vsched", "Yield"),
						Args: []ast.Expr{sel("vsched", "KYield"), ast.NewIdent("nil")}}}
					if d.Name.Name == "Copy" {
						// Copy reads two fields of its source one after the other
						// without a lock: a goroutine can be descheduled between
						// the two loads, so each assignment is a step of its own
						var body []ast.Stmt
						for i, st := range d.Body.List {
							if _, isAssign := st.(*ast.AssignStmt); isAssign && i > 0 {
								if _, prevAssign := d.Body.List[i-1].(*ast.AssignStmt); prevAssign {
									body = append(body, &ast.ExprStmt{X: &ast.CallExpr{Fun: sel("vsched", "Yield"),
										Args: []ast.Expr{sel("vsched", "KYield"), ast.NewIdent("nil")}}})
									rw.st.Yields++
								}
							}
							body = append(body, st)
						}
						d.Body.List = body
					}
					d.Body.List = append([]ast.Stmt{call}, d.Body.List...)
					rw.st.Yields++
				}
			}
			rw.types(d.Type)
			if d.Recv != nil {
				rw.fieldList(d.Recv)
			}
		case *ast.GenDecl:
			for _, s := range d.Specs {
				switch s := s.(type) {
				case *ast.TypeSpec:
					s.Type = rw.expr(s.Type)
				case *ast.ValueSpec:
					if s.Type != nil {
						s.Type = rw.expr(s.Type)
					}
					rw.valueSpec(s)
				}
			}
		}
	}
	// import of vsched + keep-alive
	f.Decls = append(f.Decls, &ast.GenDecl{Tok: token.VAR, Specs: []ast.Spec{&ast.ValueSpec{
		Names: []*ast.Ident{ast.NewIdent("_")}, Values: []ast.Expr{sel("vsched", "KYield")}}}})
	spec := &ast.ImportSpec{Name: ast.NewIdent("vsched"), Path: &ast.BasicLit{Kind: token.STRING, Value: "\"" + shimBase + "vsched\""}}
	gd := &ast.GenDecl{Tok: token.IMPORT, Specs: []ast.Spec{spec}}
	f.Decls = append([]ast.Decl{gd}, f.Decls...)
	f.Imports = append(f.Imports, spec)
}

func recvBase(t ast.Expr) string {
	for {
		switch x := t.(type) {
		case *ast.StarExpr:
			t = x.X
		case *ast.ParenExpr:
			t = x.X
		case *ast.Ident:
			return x.Name
		case *ast.IndexExpr:
			t = x.X
		default:
			return ""
		}
	}
}

// guardedAccesses returns the (X, field) pairs of guarded-field selectors
// inside n (not descending into function literals or nested blocks).
func (rw *rewriter) guardedAccesses(n ast.Node) [][2]interface{} {
	var out [][2]interface{}
	ast.Inspect(n, func(x ast.Node) bool {
		switch y := x.(type) {
		case *ast.FuncLit, *ast.BlockStmt:
			return x == n
		case *ast.SelectorExpr:
			tv, ok := rw.info.Types[y.X]
			if !ok || tv.Type == nil {
				return true
			}
			t := tv.Type
			if p, ok := t.(*types.Pointer); ok {
				t = p.Elem()
			}
			nt, ok := t.(*types.Named)
			if !ok {
				return true
			}
			if fs := guardedFields[nt.Obj().Name()]; fs != nil && fs[y.Sel.Name] && !hasCall(y.X, rw.info) {
				if _, isPtr := tv.Type.(*types.Pointer); isPtr {
					out = append(out, [2]interface{}{y.X, y.Sel.Name})
				}
			}
		}
		return true
	})
	return out
}

func headerOf(s ast.Stmt) []ast.Node {
	switch x := s.(type) {
	case *ast.IfStmt:
		return []ast.Node{x.Init, x.Cond}
	case *ast.ForStmt:
		return []ast.Node{x.Init, x.Cond}
	case *ast.SwitchStmt:
		return []ast.Node{x.Init, x.Tag}
	case *ast.RangeStmt:
		return []ast.Node{x.X}
	case *ast.BlockStmt, *ast.LabeledStmt, *ast.SelectStmt, *ast.TypeSwitchStmt, *ast.CaseClause:
		return nil
	default:
		return []ast.Node{s}
	}
}

// guardBlock inserts vsched.Access(X, "field") before every statement that
// touches a guarded field (T7), recursively.
func (rw *rewriter) guardBlock(b *ast.BlockStmt) {
	if b == nil {
		return
	}
	var out []ast.Stmt
	for _, s := range b.List {
		seen := map[string]bool{}
		for _, h := range headerOf(s) {
			if h == nil || (fmt.Sprintf("%v", h) == "<nil>") {
				continue
			}
			for _, a := range rw.guardedAccesses(h) {
				var buf bytes.Buffer
				format.Node(&buf, rw.fset, a[0].(ast.Expr))
				key := buf.String() + "." + a[1].(string)
				if seen[key] {
					continue
				}
				seen[key] = true
				x, err := parser.ParseExpr(buf.String())
				if err != nil {
					continue
				}
				out = append(out, &ast.ExprStmt{X: &ast.CallExpr{Fun: sel("vsched", "Access"),
					Args: []ast.Expr{x, &ast.BasicLit{Kind: token.STRING, Value: "\"" + a[1].(string) + "\""}}}})
				rw.st.Accesses++
			}
		}
		// T8: writes to a collections map
		if m := rw.collMapWritten(s); m != nil {
			var buf bytes.Buffer
			format.Node(&buf, rw.fset, m)
			if x, err := parser.ParseExpr(buf.String()); err == nil {
				out = append(out, &ast.ExprStmt{X: &ast.CallExpr{Fun: sel("vsched", "MapWrite"),
					Args: []ast.Expr{x, &ast.BasicLit{Kind: token.STRING, Value: fmt.Sprintf("%q", rw.fset.Position(s.Pos()).String())}}}})
				rw.st.MapWrites++
			}
		}
		out = append(out, s)
		// nested blocks
		ast.Inspect(s, func(n ast.Node) bool {
			switch y := n.(type) {
			case *ast.FuncLit:
				rw.guardBlock(y.Body)
				return false
			case *ast.BlockStmt:
				rw.guardBlock(y)
				return false
			case *ast.CaseClause:
				bb := &ast.BlockStmt{List: y.Body}
				rw.guardBlock(bb)
				y.Body = bb.List
				return false
			}
			return true
		})
	}
	b.List = out
}

// isCollMap reports whether e is a map[string]*Collection.
func (rw *rewriter) isCollMap(e ast.Expr) bool {
	tv, ok := rw.info.Types[e]
	if !ok || tv.Type == nil {
		return false
	}
	m, ok := tv.Type.Underlying().(*types.Map)
	if !ok {
		return false
	}
	p, ok := m.Elem().(*types.Pointer)
	if !ok {
		return false
	}
	nt, ok := p.Elem().(*types.Named)
	return ok && nt.Obj().Name() == "Collection"
}

// collMapWritten returns the map expression when s stores into or deletes
// from a collections map (T8), else nil.
func (rw *rewriter) collMapWritten(s ast.Stmt) ast.Expr {
	switch x := s.(type) {
	case *ast.AssignStmt:
		for _, l := range x.Lhs {
			if ix, ok := l.(*ast.IndexExpr); ok && rw.isCollMap(ix.X) {
				return ix.X
			}
		}
	case *ast.ExprStmt:
		if c, ok := x.X.(*ast.CallExpr); ok && len(c.Args) == 2 {
			if id, ok := c.Fun.(*ast.Ident); ok && rw.isBuiltin(id, "delete") && rw.isCollMap(c.Args[0]) {
				return c.Args[0]
			}
		}
	}
	return nil
}

// getCollHook wraps Store.getColl: every map that has been visible through it
// is published, i.e. must never change again (T8).
func (rw *rewriter) getCollHook(f *ast.File) {
	for _, d := range f.Decls {
		fd, ok := d.(*ast.FuncDecl)
		if !ok || fd.Recv == nil || fd.Name.Name != "getColl" || recvBase(fd.Recv.List[0].Type) != "Store" ||
			fd.Type.Results == nil || len(fd.Type.Results.List) != 1 || len(fd.Recv.List[0].Names) != 1 || len(fd.Type.Params.List) != 0 {
			continue
		}
		recvName := fd.Recv.List[0].Names[0].Name
		wrapper := &ast.FuncDecl{
			Recv: fd.Recv, Name: ast.NewIdent("getColl"), Type: fd.Type,
			Body: &ast.BlockStmt{List: []ast.Stmt{
				&ast.AssignStmt{Lhs: []ast.Expr{ast.NewIdent("_vr")}, Tok: token.DEFINE,
					Rhs: []ast.Expr{&ast.CallExpr{Fun: &ast.SelectorExpr{X: ast.NewIdent(recvName), Sel: ast.NewIdent("getCollVerifOrig")}}}},
				&ast.IfStmt{Cond: &ast.BinaryExpr{X: ast.NewIdent("_vr"), Op: token.NEQ, Y: ast.NewIdent("nil")}, Body: &ast.BlockStmt{List: []ast.Stmt{
					&ast.ExprStmt{X: &ast.CallExpr{Fun: sel("vsched", "MapPublish"), Args: []ast.Expr{&ast.StarExpr{X: ast.NewIdent("_vr")}}}}}}},
				&ast.ReturnStmt{Results: []ast.Expr{ast.NewIdent("_vr")}},
			}},
		}
		fd.Name = ast.NewIdent("getCollVerifOrig")
		f.Decls = append(f.Decls, wrapper)
		rw.st.MapHooks++
		return
	}
}

// casHook renames method rootCAS of Collection to rootCASVerifOrig and adds a
// wrapper that reports successful publications to the scheduler's event log.
func (rw *rewriter) casHook(f *ast.File) {
	for _, d := range f.Decls {
		fd, ok := d.(*ast.FuncDecl)
		if !ok || fd.Recv == nil || fd.Name.Name != "rootCAS" || recvBase(fd.Recv.List[0].Type) != "Collection" {
			continue
		}
		if fd.Type.Results == nil || len(fd.Type.Results.List) != 1 || len(fd.Recv.List[0].Names) != 1 {
			continue
		}
		var argNames []ast.Expr
		ok = true
		for _, p := range fd.Type.Params.List {
			if len(p.Names) == 0 {
				ok = false
			}
			for _, n := range p.Names {
				argNames = append(argNames, ast.NewIdent(n.Name))
			}
		}
		if !ok {
			continue
		}
		recvName := fd.Recv.List[0].Names[0].Name
		wrapper := &ast.FuncDecl{
			Recv: fd.Recv, Name: ast.NewIdent("rootCAS"), Type: fd.Type,
			Body: &ast.BlockStmt{List: []ast.Stmt{
				&ast.AssignStmt{Lhs: []ast.Expr{ast.NewIdent("_vok")}, Tok: token.DEFINE,
					Rhs: []ast.Expr{&ast.CallExpr{Fun: &ast.SelectorExpr{X: ast.NewIdent(recvName), Sel: ast.NewIdent("rootCASVerifOrig")}, Args: argNames}}},
				&ast.IfStmt{Cond: ast.NewIdent("_vok"), Body: &ast.BlockStmt{List: []ast.Stmt{
					&ast.ExprStmt{X: &ast.CallExpr{Fun: sel("vsched", "Event"), Args: []ast.Expr{
						&ast.BasicLit{Kind: token.STRING, Value: "\"rootCAS\""}, ast.NewIdent(recvName)}}}}}},
				&ast.ReturnStmt{Results: []ast.Expr{ast.NewIdent("_vok")}},
			}},
		}
		fd.Name = ast.NewIdent("rootCASVerifOrig")
		f.Decls = append(f.Decls, wrapper)
		rw.st.CASHooks++
		return
	}
}

// allocHook wraps mkRootNodeLoc so that the lock-discipline state of a
// (re)allocated version handle starts afresh.
func (rw *rewriter) allocHook(f *ast.File) {
	for _, d := range f.Decls {
		fd, ok := d.(*ast.FuncDecl)
		if !ok || fd.Recv == nil || fd.Name.Name != "mkRootNodeLoc" || fd.Type.Results == nil || len(fd.Type.Results.List) != 1 || len(fd.Recv.List[0].Names) != 1 {
			continue
		}
		var argNames []ast.Expr
		for _, p := range fd.Type.Params.List {
			for _, n := range p.Names {
				argNames = append(argNames, ast.NewIdent(n.Name))
			}
		}
		recvName := fd.Recv.List[0].Names[0].Name
		wrapper := &ast.FuncDecl{
			Recv: fd.Recv, Name: ast.NewIdent("mkRootNodeLoc"), Type: fd.Type,
			Body: &ast.BlockStmt{List: []ast.Stmt{
				&ast.AssignStmt{Lhs: []ast.Expr{ast.NewIdent("_vr")}, Tok: token.DEFINE,
					Rhs: []ast.Expr{&ast.CallExpr{Fun: &ast.SelectorExpr{X: ast.NewIdent(recvName), Sel: ast.NewIdent("mkRootNodeLocVerifOrig")}, Args: argNames}}},
				&ast.ExprStmt{X: &ast.CallExpr{Fun: sel("vsched", "AccessReset"), Args: []ast.Expr{ast.NewIdent("_vr")}}},
				&ast.ReturnStmt{Results: []ast.Expr{ast.NewIdent("_vr")}},
			}},
		}
		fd.Name = ast.NewIdent("mkRootNodeLocVerifOrig")
		f.Decls = append(f.Decls, wrapper)
		return
	}
}

func (rw *rewriter) fieldList(fl *ast.FieldList) {
	if fl == nil {
		return
	}
	for _, f := range fl.List {
		f.Type = rw.expr(f.Type)
	}
}

func (rw *rewriter) types(ft *ast.FuncType) {
	rw.fieldList(ft.Params)
	rw.fieldList(ft.Results)
}

func (rw *rewriter) valueSpec(s *ast.ValueSpec) {
	if len(s.Names) == 2 && len(s.Values) == 1 {
		if u, ok := unparen(s.Values[0]).(*ast.UnaryExpr); ok && u.Op == token.ARROW {
			s.Values[0] = &ast.CallExpr{Fun: &ast.SelectorExpr{X: rw.expr(u.X), Sel: ast.NewIdent("Recv2")}}
			rw.st.Recvs++
			return
		}
	}
	for i, v := range s.Values {
		s.Values[i] = rw.expr(v)
	}
}

func unparen(e ast.Expr) ast.Expr {
	for {
		p, ok := e.(*ast.ParenExpr)
		if !ok {
			return e
		}
		e = p.X
	}
}

func (rw *rewriter) block(b *ast.BlockStmt) *ast.BlockStmt {
	if b == nil {
		return nil
	}
	for i, s := range b.List {
		b.List[i] = rw.stmt(s)
	}
	return b
}

func (rw *rewriter) newTmp(prefix string) string {
	rw.tmp++
	return fmt.Sprintf("_v%s%d", prefix, rw.tmp)
}

func (rw *rewriter) stmt(s ast.Stmt) ast.Stmt {
	switch s := s.(type) {
	case nil:
		return nil
	case *ast.BlockStmt:
		return rw.block(s)
	case *ast.ExprStmt:
		s.X = rw.expr(s.X)
		return s
	case *ast.SendStmt:
		rw.st.Sends++
		return &ast.ExprStmt{X: &ast.CallExpr{Fun: &ast.SelectorExpr{X: rw.expr(s.Chan), Sel: ast.NewIdent("Send")},
			Args: []ast.Expr{rw.expr(s.Value)}}}
	case *ast.AssignStmt:
		if len(s.Lhs) == 2 && len(s.Rhs) == 1 {
			if u, ok := unparen(s.Rhs[0]).(*ast.UnaryExpr); ok && u.Op == token.ARROW {
				for i := range s.Lhs {
					s.Lhs[i] = rw.expr(s.Lhs[i])
				}
				s.Rhs[0] = &ast.CallExpr{Fun: &ast.SelectorExpr{X: rw.expr(u.X), Sel: ast.NewIdent("Recv2")}}
				rw.st.Recvs++
				return s
			}
		}
		for i := range s.Lhs {
			s.Lhs[i] = rw.expr(s.Lhs[i])
		}
		for i := range s.Rhs {
			s.Rhs[i] = rw.expr(s.Rhs[i])
		}
		return s
	case *ast.GoStmt:
		return rw.goStmt(s)
	case *ast.DeferStmt:
		s.Call = rw.expr(s.Call).(*ast.CallExpr)
		return s
	case *ast.ReturnStmt:
		for i := range s.Results {
			s.Results[i] = rw.expr(s.Results[i])
		}
		return s
	case *ast.IfStmt:
		s.Init = rw.stmt(s.Init)
		s.Cond = rw.expr(s.Cond)
		s.Body = rw.block(s.Body)
		s.Else = rw.stmt(s.Else)
		return s
	case *ast.ForStmt:
		s.Init = rw.stmt(s.Init)
		if s.Cond != nil {
			s.Cond = rw.expr(s.Cond)
		}
		s.Post = rw.stmt(s.Post)
		s.Body = rw.block(s.Body)
		return s
	case *ast.RangeStmt:
		return rw.rangeStmt(s)
	case *ast.SwitchStmt:
		s.Init = rw.stmt(s.Init)
		if s.Tag != nil {
			s.Tag = rw.expr(s.Tag)
		}
		s.Body = rw.block(s.Body)
		return s
	case *ast.TypeSwitchStmt:
		s.Init = rw.stmt(s.Init)
		s.Assign = rw.stmt(s.Assign)
		s.Body = rw.block(s.Body)
		return s
	case *ast.CaseClause:
		for i := range s.List {
			s.List[i] = rw.expr(s.List[i])
		}
		for i := range s.Body {
			s.Body[i] = rw.stmt(s.Body[i])
		}
		return s
	case *ast.SelectStmt:
		rw.st.Unsupported = append(rw.st.Unsupported, "select at "+rw.pos(s))
		return s
	case *ast.LabeledStmt:
		s.Stmt = rw.stmt(s.Stmt)
		return s
	case *ast.DeclStmt:
		if gd, ok := s.Decl.(*ast.GenDecl); ok {
			for _, sp := range gd.Specs {
				switch sp := sp.(type) {
				case *ast.ValueSpec:
					if sp.Type != nil {
						sp.Type = rw.expr(sp.Type)
					}
					rw.valueSpec(sp)
				case *ast.TypeSpec:
					sp.Type = rw.expr(sp.Type)
				}
			}
		}
		return s
	case *ast.IncDecStmt:
		s.X = rw.expr(s.X)
		return s
	default:
		return s
	}
}

func (rw *rewriter) goStmt(s *ast.GoStmt) ast.Stmt {
	rw.st.GoStmts++
	call := s.Call
	var lhs []ast.Expr
	var rhs []ast.Expr
	newCall := &ast.CallExpr{Ellipsis: call.Ellipsis}
	switch fn := call.Fun.(type) {
	case *ast.SelectorExpr:
		isPkg := false
		if id, ok := fn.X.(*ast.Ident); ok {
			if _, ok := rw.info.Uses[id].(*types.PkgName); ok {
				isPkg = true
			}
		}
		if isPkg {
			newCall.Fun = fn
		} else {
			t := rw.newTmp("g")
			lhs = append(lhs, ast.NewIdent(t))
			rhs = append(rhs, rw.expr(fn.X))
			newCall.Fun = &ast.SelectorExpr{X: ast.NewIdent(t), Sel: fn.Sel}
		}
	case *ast.FuncLit:
		fn.Body = rw.block(fn.Body)
		rw.types(fn.Type)
		newCall.Fun = fn
	default:
		t := rw.newTmp("g")
		lhs = append(lhs, ast.NewIdent(t))
		rhs = append(rhs, rw.expr(call.Fun))
		newCall.Fun = ast.NewIdent(t)
	}
	for _, a := range call.Args {
		t := rw.newTmp("g")
		lhs = append(lhs, ast.NewIdent(t))
		rhs = append(rhs, rw.expr(a))
		newCall.Args = append(newCall.Args, ast.NewIdent(t))
	}
	spawn := &ast.ExprStmt{X: &ast.CallExpr{Fun: sel("vsched", "GoLib"), Args: []ast.Expr{
		&ast.FuncLit{Type: &ast.FuncType{Params: &ast.FieldList{}}, Body: &ast.BlockStmt{List: []ast.Stmt{&ast.ExprStmt{X: newCall}}}}}}}
	if len(lhs) == 0 {
		return spawn
	}
	return &ast.BlockStmt{List: []ast.Stmt{&ast.AssignStmt{Lhs: lhs, Tok: token.DEFINE, Rhs: rhs}, spawn}}
}

func hasCall(e ast.Expr, info *types.Info) bool {
	found := false
	ast.Inspect(e, func(n ast.Node) bool {
		if c, ok := n.(*ast.CallExpr); ok {
			if tv, ok := info.Types[c.Fun]; ok && tv.IsType() {
				return true
			}
			found = true
		}
		return !found
	})
	return found
}

func isBlank(e ast.Expr) bool {
	if e == nil {
		return true
	}
	id, ok := e.(*ast.Ident)
	return ok && id.Name == "_"
}

func (rw *rewriter) rangeStmt(s *ast.RangeStmt) ast.Stmt {
	if rw.isChan(s.X) {
		rw.st.RangeChans++
		ch := rw.expr(s.X)
		okName := rw.newTmp("ok")
		var recv ast.Stmt
		call := &ast.CallExpr{Fun: &ast.SelectorExpr{X: ch, Sel: ast.NewIdent("Recv2")}}
		switch {
		case isBlank(s.Key):
			recv = &ast.AssignStmt{Lhs: []ast.Expr{ast.NewIdent("_"), ast.NewIdent(okName)}, Tok: token.DEFINE, Rhs: []ast.Expr{call}}
		case s.Tok == token.DEFINE:
			recv = &ast.AssignStmt{Lhs: []ast.Expr{s.Key, ast.NewIdent(okName)}, Tok: token.DEFINE, Rhs: []ast.Expr{call}}
		default:
			rw.st.Unsupported = append(rw.st.Unsupported, "range over channel with assignment at "+rw.pos(s))
			return s
		}
		brk := &ast.IfStmt{Cond: &ast.UnaryExpr{Op: token.NOT, X: ast.NewIdent(okName)},
			Body: &ast.BlockStmt{List: []ast.Stmt{&ast.BranchStmt{Tok: token.BREAK}}}}
		body := rw.block(s.Body)
		body.List = append([]ast.Stmt{recv, brk}, body.List...)
		return &ast.ForStmt{Body: body}
	}
	if rw.isStringMap(s.X) {
		if s.Tok != token.DEFINE || hasCall(s.X, rw.info) {
			rw.st.Unsupported = append(rw.st.Unsupported, "map range left unordered at "+rw.pos(s))
		} else {
			rw.st.MapRanges++
			m := rw.expr(s.X)
			var key ast.Expr = s.Key
			if isBlank(key) {
				key = ast.NewIdent(rw.newTmp("k"))
			}
			body := rw.block(s.Body)
			if !isBlank(s.Value) {
				asg := &ast.AssignStmt{Lhs: []ast.Expr{s.Value}, Tok: token.DEFINE,
					Rhs: []ast.Expr{&ast.IndexExpr{X: &ast.ParenExpr{X: m}, Index: key}}}
				body.List = append([]ast.Stmt{asg}, body.List...)
			}
			return &ast.RangeStmt{Key: ast.NewIdent("_"), Value: key, Tok: token.DEFINE,
				X: &ast.CallExpr{Fun: sel("vsched", "SortedKeys"), Args: []ast.Expr{m}}, Body: body}
		}
	}
	if s.Key != nil {
		s.Key = rw.expr(s.Key)
	}
	if s.Value != nil {
		s.Value = rw.expr(s.Value)
	}
	s.X = rw.expr(s.X)
	s.Body = rw.block(s.Body)
	return s
}

func (rw *rewriter) exprs(es []ast.Expr) {
	for i := range es {
		es[i] = rw.expr(es[i])
	}
}

func (rw *rewriter) expr(e ast.Expr) ast.Expr {
	switch e := e.(type) {
	case nil:
		return nil
	case *ast.ChanType:
		rw.st.ChanTypes++
		return rw.chanTypeExpr(rw.expr(e.Value))
	case *ast.UnaryExpr:
		if e.Op == token.ARROW {
			rw.st.Recvs++
			return &ast.CallExpr{Fun: &ast.SelectorExpr{X: rw.expr(e.X), Sel: ast.NewIdent("Recv")}}
		}
		e.X = rw.expr(e.X)
		return e
	case *ast.CallExpr:
		if id, ok := e.Fun.(*ast.Ident); ok {
			if rw.isBuiltin(id, "make") && len(e.Args) >= 1 {
				if ct, ok := e.Args[0].(*ast.ChanType); ok {
					rw.st.MakeChans++
					var n ast.Expr = &ast.BasicLit{Kind: token.INT, Value: "0"}
					if len(e.Args) > 1 {
						n = rw.expr(e.Args[1])
					}
					return &ast.CallExpr{Fun: &ast.IndexExpr{X: sel("vsched", "MakeChan"), Index: rw.expr(ct.Value)}, Args: []ast.Expr{n}}
				}
				if rw.isChan(e.Args[0]) {
					rw.st.Unsupported = append(rw.st.Unsupported, "make of named channel type at "+rw.pos(e))
				}
			}
			if rw.isBuiltin(id, "close") && len(e.Args) == 1 {
				rw.st.Closes++
				return &ast.CallExpr{Fun: &ast.SelectorExpr{X: rw.expr(e.Args[0]), Sel: ast.NewIdent("Close")}}
			}
			if (rw.isBuiltin(id, "len") || rw.isBuiltin(id, "cap")) && len(e.Args) == 1 && rw.isChan(e.Args[0]) {
				m := "Len"
				if id.Name == "cap" {
					m = "Cap"
				}
				return &ast.CallExpr{Fun: &ast.SelectorExpr{X: rw.expr(e.Args[0]), Sel: ast.NewIdent(m)}}
			}
		}
		e.Fun = rw.expr(e.Fun)
		rw.exprs(e.Args)
		return e
	case *ast.ParenExpr:
		e.X = rw.expr(e.X)
		return e
	case *ast.StarExpr:
		e.X = rw.expr(e.X)
		return e
	case *ast.SelectorExpr:
		e.X = rw.expr(e.X)
		return e
	case *ast.IndexExpr:
		e.X = rw.expr(e.X)
		e.Index = rw.expr(e.Index)
		return e
	case *ast.IndexListExpr:
		e.X = rw.expr(e.X)
		rw.exprs(e.Indices)
		return e
	case *ast.SliceExpr:
		e.X = rw.expr(e.X)
		e.Low, e.High, e.Max = rw.expr(e.Low), rw.expr(e.High), rw.expr(e.Max)
		return e
	case *ast.TypeAssertExpr:
		e.X = rw.expr(e.X)
		e.Type = rw.expr(e.Type)
		return e
	case *ast.BinaryExpr:
		e.X = rw.expr(e.X)
		e.Y = rw.expr(e.Y)
		return e
	case *ast.KeyValueExpr:
		e.Key = rw.expr(e.Key)
		e.Value = rw.expr(e.Value)
		return e
	case *ast.CompositeLit:
		e.Type = rw.expr(e.Type)
		rw.exprs(e.Elts)
		return e
	case *ast.FuncLit:
		rw.types(e.Type)
		e.Body = rw.block(e.Body)
		return e
	case *ast.ArrayType:
		e.Len = rw.expr(e.Len)
		e.Elt = rw.expr(e.Elt)
		return e
	case *ast.MapType:
		e.Key = rw.expr(e.Key)
		e.Value = rw.expr(e.Value)
		return e
	case *ast.StructType:
		rw.fieldList(e.Fields)
		return e
	case *ast.FuncType:
		rw.types(e)
		return e
	case *ast.InterfaceType:
		rw.fieldList(e.Methods)
		return e
	case *ast.Ellipsis:
		e.Elt = rw.expr(e.Elt)
		return e
	default:
		return e
	}
}
