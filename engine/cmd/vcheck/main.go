// vcheck is the driver behind /verif/check: it regenerates the instrumented
// overlay from /repo's working tree, builds the instrumented and the pristine
// worker, runs the shards, replays recorded traces on the pristine build,
// writes the evidence file and reports violations.
//
//	vcheck <ID> quick|thorough
//	vcheck <ID> --replay <file>
package main

import (
	"bytes"
	"crypto/sha1"
	"encoding/json"
	"fmt"
	"os"
	"os/exec"
	"path/filepath"
	"regexp"
	"runtime"
	"sort"
	"strconv"
	"strings"
	"sync"
	"time"

	"gkvverif/explore"
)

var (
	verifDir  = "/verif"
	engineDir = "/verif/engine"
)

const repoDir = "/repo"

func init() {
	if d := os.Getenv("VERIF_DIR"); d != "" {
		verifDir = d
		engineDir = filepath.Join(d, "engine")
	}
}

type ProfileResult struct {
	Profile     string
	Rule        string
	Executions  int64
	Skipped     int64
	Transitions int64
	NonTrivial  int64
	MaxPoints   int
	States      []uint64
	Outcomes    []uint64
	Found       []explore.Found
	SigCounts   map[string]int
	Samples     []string
	Traces      []explore.Trace
	Extra       map[string]int64
	Truncated   bool
	TruncReason string
	Diverged    []string
	WallS       float64
}

type WorkerResult struct {
	Prop           string
	Tier           string
	Shard          int
	Instrumented   bool
	Profiles       []ProfileResult
	TracesReplayed int
	TraceMismatch  []string
}

type knownEntry struct {
	Property  string `json:"property"`
	Signature string `json:"signature"` // regexp on the violation signature
	History   string `json:"history"`   // optional regexp on the failing history / message
	// Signatures lists exact violation signatures (used instead of the regexp
	// when a finding is identified per failing operation mix); Profile
	// restricts the entry to one profile.
	Signatures []string `json:"signatures"`
	Profile    string   `json:"profile"`
	What       string   `json:"what"`
}

type knownFile struct {
	Known []knownEntry `json:"known"`
	Fixed []string     `json:"fixed"`
}

// Meta per property (level, assumptions) comes from `worker -describe`.

func goEnv() []string {
	env := os.Environ()
	env = append(env, "GOFLAGS=-mod=mod", "GOPROXY=off", "GOSUMDB=off", "GOTOOLCHAIN=local")
	return env
}

func run(dir string, env []string, name string, args ...string) (string, error) {
	cmd := exec.Command(name, args...)
	cmd.Dir = dir
	cmd.Env = env
	var buf bytes.Buffer
	cmd.Stdout = &buf
	cmd.Stderr = &buf
	err := cmd.Run()
	return buf.String(), err
}

func die(code int, format string, a ...interface{}) {
	fmt.Fprintf(os.Stderr, "vcheck: "+format+"\n", a...)
	os.Exit(code)
}

func envInt(name string, def int) int {
	if v := os.Getenv(name); v != "" {
		if n, err := strconv.Atoi(v); err == nil {
			return n
		}
	}
	return def
}

func main() {
	if len(os.Args) < 3 {
		die(2, "usage: vcheck <ID> quick|thorough | vcheck <ID> --replay <file>")
	}
	id := os.Args[1]
	tier := os.Args[2]
	replayFile := ""
	if tier == "--replay" {
		if len(os.Args) < 4 {
			die(2, "missing replay file")
		}
		replayFile = os.Args[3]
		tier = "quick"
		// a counterexample is replayed in the tier that found it (the profile
		// lists of the tiers differ)
		if b, err := os.ReadFile(replayFile); err == nil {
			var rf struct{ Tier string }
			if json.Unmarshal(b, &rf) == nil && (rf.Tier == "quick" || rf.Tier == "thorough") {
				tier = rf.Tier
			}
		}
	}
	if t := os.Getenv("VERIF_TIER"); t != "" && replayFile == "" && (t == "quick" || t == "thorough") {
		tier = t
	}
	seed := envInt("VERIF_SEED", 0)
	start := time.Now()
	env := goEnv()

	work, err := os.MkdirTemp("", "gkvverif-"+id+"-")
	if err != nil {
		die(2, "%v", err)
	}
	defer os.RemoveAll(work)
	cleanupAndExit := func(code int) {
		os.RemoveAll(work)
		os.Exit(code)
	}

	// keep go.sum in step with the repository's
	if b, err := os.ReadFile(filepath.Join(repoDir, "go.sum")); err == nil {
		if old, _ := os.ReadFile(filepath.Join(engineDir, "go.sum")); !bytes.Equal(old, b) {
			os.WriteFile(filepath.Join(engineDir, "go.sum"), b, 0o644)
		}
	}
	// 1. overlay
	mk := filepath.Join(engineDir, "bin", "mkoverlay")
	if _, err := os.Stat(mk); err != nil {
		if out, err := run(engineDir, env, "go", "build", "-o", mk, "./cmd/mkoverlay"); err != nil {
			fmt.Fprintln(os.Stderr, out)
			die(2, "cannot build mkoverlay")
		}
	}
	ovDir := filepath.Join(work, "ov")
	if out, err := run(engineDir, env, mk, "-repo", repoDir, "-engine", engineDir, "-out", ovDir); err != nil {
		fmt.Fprintln(os.Stderr, out)
		die(2, "mkoverlay failed")
	} else if strings.Contains(out, "UNSUPPORTED-CONSTRUCT") {
		fmt.Fprint(os.Stderr, out)
	}
	// 2. builds (in parallel)
	instr := filepath.Join(work, "worker-instr")
	plain := filepath.Join(work, "worker-plain")
	var wg sync.WaitGroup
	var outI, outP string
	var errI, errP error
	wg.Add(2)
	go func() {
		defer wg.Done()
		outI, errI = run(engineDir, env, "go", "build", "-overlay", filepath.Join(ovDir, "overlay.json"), "-tags", "verif", "-o", instr, "./cmd/worker")
	}()
	go func() {
		defer wg.Done()
		outP, errP = run(engineDir, env, "go", "build", "-o", plain, "./cmd/worker")
	}()
	wg.Wait()
	if errI != nil {
		fmt.Fprintln(os.Stderr, outI)
		die(2, "instrumented build of %s failed", repoDir)
	}
	if errP != nil {
		fmt.Fprintln(os.Stderr, outP)
		die(2, "pristine build of %s failed", repoDir)
	}

	viewBin := ""
	if id == "C09" {
		// tools/view is anchored by C09: build it from the tree (pristine)
		viewBin = filepath.Join(work, "view")
		if out, err := run(repoDir, env, "go", "build", "-o", viewBin, "./tools/view"); err != nil {
			fmt.Fprintln(os.Stderr, out)
			die(2, "cannot build tools/view")
		}
	}
	if replayFile != "" {
		cmd := exec.Command(instr, "-prop", id, "-tier", tier, "-replay", replayFile)
		cmd.Env = append(os.Environ(), "VERIF_VIEW="+viewBin)
		cmd.Stdout, cmd.Stderr = os.Stdout, os.Stderr
		err := cmd.Run()
		if ee, ok := err.(*exec.ExitError); ok {
			cleanupAndExit(ee.ExitCode())
		}
		cleanupAndExit(0)
	}

	// 3. shards
	nw := envInt("VERIF_WORKERS", runtime.NumCPU())
	if nw > 16 {
		nw = 16
	}
	if nw < 1 {
		nw = 1
	}
	deadline := envInt("VERIF_DEADLINE", 0)
	if deadline == 0 {
		if tier == "quick" {
			deadline = 240
		} else {
			deadline = 2400
		}
	}
	results := make([]*WorkerResult, nw)
	errsW := make([]string, nw)
	for i := 0; i < nw; i++ {
		wg.Add(1)
		go func(i int) {
			defer wg.Done()
			of := filepath.Join(work, fmt.Sprintf("res-%d.json", i))
			cmd := exec.Command(instr, "-prop", id, "-tier", tier, "-shard", strconv.Itoa(i), "-shards", strconv.Itoa(nw),
				"-deadline", strconv.Itoa(deadline), "-traces", "60", "-out", of)
			if only := os.Getenv("VERIF_PROFILE"); only != "" { // development aid: one profile, no evidence file
				cmd.Args = append(cmd.Args, "-profile", only)
			}
			cmd.Env = append(os.Environ(), "GOMAXPROCS=1", "VERIF_VIEW="+viewBin)
			var buf bytes.Buffer
			cmd.Stdout, cmd.Stderr = &buf, &buf
			done := make(chan error, 1)
			if err := cmd.Start(); err != nil {
				errsW[i] = err.Error()
				return
			}
			go func() { done <- cmd.Wait() }()
			select {
			case err := <-done:
				if err != nil {
					errsW[i] = fmt.Sprintf("worker %d: %v\n%s", i, err, tail(buf.String(), 4000))
					return
				}
			case <-time.After(time.Duration(deadline+600) * time.Second):
				cmd.Process.Kill()
				errsW[i] = fmt.Sprintf("worker %d: killed by the last-resort wall-clock limit (%ds past its internal deadline)", i, 600)
				return
			}
			b, err := os.ReadFile(of)
			if err != nil {
				errsW[i] = err.Error()
				return
			}
			var r WorkerResult
			if err := json.Unmarshal(b, &r); err != nil {
				errsW[i] = err.Error()
				return
			}
			results[i] = &r
		}(i)
	}
	wg.Wait()
	for _, e := range errsW {
		if e != "" {
			fmt.Fprintln(os.Stderr, e)
			die(2, "a worker failed (framework error, no verdict)")
		}
	}

	// 4. merge
	type agg struct {
		name, rule                       string
		exec, skipped, trans, nontrivial int64
		maxPoints                        int
		states, outcomes                 map[uint64]struct{}
		truncated                        bool
		reason                           string
		samples                          []string
		extra                            map[string]int64
		wall                             float64
	}
	var order []string
	aggs := map[string]*agg{}
	var found []explore.Found
	sigCounts := map[string]int{}
	var traces []explore.Trace
	var diverged []string
	for _, r := range results {
		for _, p := range r.Profiles {
			a := aggs[p.Profile]
			if a == nil {
				a = &agg{name: p.Profile, rule: p.Rule, states: map[uint64]struct{}{}, outcomes: map[uint64]struct{}{}, extra: map[string]int64{}}
				aggs[p.Profile] = a
				order = append(order, p.Profile)
			}
			a.exec += p.Executions
			a.skipped += p.Skipped
			a.trans += p.Transitions
			a.nontrivial += p.NonTrivial
			if p.MaxPoints > a.maxPoints {
				a.maxPoints = p.MaxPoints
			}
			for _, h := range p.States {
				a.states[h] = struct{}{}
			}
			for _, h := range p.Outcomes {
				a.outcomes[h] = struct{}{}
			}
			if p.Truncated {
				a.truncated, a.reason = true, p.TruncReason
			}
			if len(a.samples) < 4 {
				a.samples = append(a.samples, p.Samples...)
			}
			for k, v := range p.Extra {
				a.extra[k] += v
			}
			if p.WallS > a.wall {
				a.wall = p.WallS
			}
			found = append(found, p.Found...)
			for s, n := range p.SigCounts {
				sigCounts[s] += n
			}
			traces = append(traces, p.Traces...)
			diverged = append(diverged, p.Diverged...)
		}
	}
	if len(diverged) > 0 {
		for _, d := range diverged {
			fmt.Fprintln(os.Stderr, "REPLAY-DIVERGENCE:", d)
		}
		die(2, "nondeterministic replay (framework error, no verdict)")
	}

	// 5. differential replay on the pristine build
	validated := 0
	var mismatches []string
	if len(traces) > 0 {
		tf := filepath.Join(work, "traces.json")
		tb, _ := json.Marshal(traces)
		os.WriteFile(tf, tb, 0o644)
		np := 4
		pres := make([]*WorkerResult, np)
		perr := make([]string, np)
		for i := 0; i < np; i++ {
			wg.Add(1)
			go func(i int) {
				defer wg.Done()
				of := filepath.Join(work, fmt.Sprintf("pres-%d.json", i))
				cmd := exec.Command(plain, "-prop", id, "-tier", tier, "-shard", strconv.Itoa(i), "-shards", strconv.Itoa(np), "-replaytraces", tf, "-out", of)
				var buf bytes.Buffer
				cmd.Stdout, cmd.Stderr = &buf, &buf
				done := make(chan error, 1)
				if err := cmd.Start(); err != nil {
					perr[i] = err.Error()
					return
				}
				go func() { done <- cmd.Wait() }()
				select {
				case err := <-done:
					if err != nil {
						perr[i] = fmt.Sprintf("pristine worker %d: %v\n%s", i, err, tail(buf.String(), 3000))
						return
					}
				case <-time.After(20 * time.Minute):
					cmd.Process.Kill()
					perr[i] = "pristine worker timed out"
					return
				}
				b, err := os.ReadFile(of)
				if err == nil {
					var r WorkerResult
					if json.Unmarshal(b, &r) == nil {
						pres[i] = &r
					}
				}
			}(i)
		}
		wg.Wait()
		for i, r := range pres {
			if perr[i] != "" {
				mismatches = append(mismatches, perr[i])
				continue
			}
			if r != nil {
				validated += r.TracesReplayed
				mismatches = append(mismatches, r.TraceMismatch...)
			}
		}
	}

	// 5b. free-running validation pass of the concurrent harness bodies on the
	// pristine build (real goroutines and channels), and - thorough tier - the
	// same pass under the race detector to audit where unsynchronised accesses are
	freeRuns := 0
	var raceSites, raceOutside []string
	raceReports := 0
	{
		n := 40
		if tier == "thorough" {
			n = 400
		}
		of := filepath.Join(work, "freerun.json")
		cmd := exec.Command(plain, "-prop", id, "-tier", tier, "-freerun", strconv.Itoa(n), "-out", of)
		var buf bytes.Buffer
		cmd.Stdout, cmd.Stderr = &buf, &buf
		done := make(chan error, 1)
		if err := cmd.Start(); err == nil {
			go func() { done <- cmd.Wait() }()
			select {
			case err := <-done:
				if err != nil {
					mismatches = append(mismatches, fmt.Sprintf("free-running pass crashed: %v\n%s", err, tail(buf.String(), 3000)))
				}
			case <-time.After(4 * time.Minute):
				cmd.Process.Kill()
				mismatches = append(mismatches, "free-running pass of the concurrent harness bodies on the pristine build did not finish within 4 minutes (real deadlock or livelock?)")
			}
			if b, err := os.ReadFile(of); err == nil {
				var r WorkerResult
				if json.Unmarshal(b, &r) == nil {
					freeRuns = r.TracesReplayed
					validated += r.TracesReplayed
					mismatches = append(mismatches, r.TraceMismatch...)
				}
			}
		}
		if tier == "thorough" && freeRuns > 0 {
			raceBin := filepath.Join(work, "worker-race")
			if out, err := run(engineDir, env, "go", "build", "-race", "-o", raceBin, "./cmd/worker"); err != nil {
				fmt.Fprintln(os.Stderr, "race build failed (audit skipped):", tail(out, 500))
			} else {
				cmd := exec.Command(raceBin, "-prop", id, "-tier", tier, "-freerun", "40", "-out", filepath.Join(work, "race.json"))
				cmd.Env = append(os.Environ(), "GORACE=halt_on_error=0 log_path="+filepath.Join(work, "racelog"))
				var buf bytes.Buffer
				cmd.Stdout, cmd.Stderr = &buf, &buf
				done := make(chan error, 1)
				if err := cmd.Start(); err == nil {
					go func() { done <- cmd.Wait() }()
					select {
					case <-done:
					case <-time.After(15 * time.Minute):
						cmd.Process.Kill()
					}
				}
				logs, _ := filepath.Glob(filepath.Join(work, "racelog*"))
				siteSet := map[string]bool{}
				for _, l := range logs {
					b, _ := os.ReadFile(l)
					for _, rep := range strings.Split(string(b), "WARNING: DATA RACE") {
						if strings.TrimSpace(rep) == "" {
							continue
						}
						raceReports++
						// first gkvlite frame of each of the two accesses
						for _, blk := range strings.Split(rep, "\n\n") {
							if !(strings.Contains(blk, "Read at") || strings.Contains(blk, "Write at") || strings.Contains(blk, "Previous read") || strings.Contains(blk, "Previous write")) {
								continue
							}
							for _, line := range strings.Split(blk, "\n") {
								line = strings.TrimSpace(line)
								if strings.HasPrefix(line, "github.com/cbehopkins/gkvlite.") {
									fn := strings.TrimPrefix(line, "github.com/cbehopkins/gkvlite.")
									if i := strings.Index(fn, "()"); i >= 0 {
										fn = fn[:i]
									}
									siteSet[fn] = true
									break
								}
							}
						}
					}
				}
				for s := range siteSet {
					raceSites = append(raceSites, s)
					if !(strings.HasPrefix(s, "(*nodeLoc).") || strings.HasPrefix(s, "(*itemLoc).") || strings.HasPrefix(s, "(*node).") || strings.HasPrefix(s, "node.")) {
						raceOutside = append(raceOutside, s)
					}
				}
				sort.Strings(raceSites)
				sort.Strings(raceOutside)
			}
		}
	}

	// 6. known findings
	var kf knownFile
	if b, err := os.ReadFile(filepath.Join(verifDir, "known_findings.json")); err == nil {
		if err := json.Unmarshal(b, &kf); err != nil {
			die(2, "known_findings.json: %v", err)
		}
	}
	matchKnown := func(f explore.Found) *knownEntry {
		for i := range kf.Known {
			k := &kf.Known[i]
			if k.Property != id {
				continue
			}
			if k.Profile != "" && k.Profile != f.Profile {
				continue
			}
			if len(k.Signatures) > 0 {
				hit := false
				for _, s := range k.Signatures {
					if s == f.Viol.Sig {
						hit = true
					}
				}
				if !hit {
					continue
				}
			} else if ok, _ := regexp.MatchString(k.Signature, f.Viol.Sig); !ok {
				continue
			}
			if k.History != "" {
				if ok, _ := regexp.MatchString(k.History, f.Viol.Msg); !ok {
					continue
				}
			}
			return k
		}
		return nil
	}
	sort.SliceStable(found, func(i, j int) bool { return len(found[i].Choices) < len(found[j].Choices) })
	seenSig := map[string]bool{}
	knownHit := map[string]bool{}
	var newViol []explore.Found
	for _, f := range found {
		if k := matchKnown(f); k != nil {
			knownHit[k.What] = true
			continue
		}
		if seenSig[f.Viol.Sig] {
			continue
		}
		seenSig[f.Viol.Sig] = true
		newViol = append(newViol, f)
	}

	// 7. evidence
	level := "model_checking"
	if id == "C03" || id == "C07" {
		level = "fault_enumeration"
	}
	var totalExec, totalTrans, totalNT int64
	allStates := map[string]struct{}{}
	allOutcomes := 0
	exhaustive := true
	var rules, samples []string
	profInfo := map[string]interface{}{}
	for _, n := range order {
		a := aggs[n]
		totalExec += a.exec + a.extra["crash_images"]
		totalTrans += a.trans
		totalNT += a.nontrivial
		for h := range a.states {
			allStates[n+":"+strconv.FormatUint(h, 16)] = struct{}{}
		}
		allOutcomes += len(a.outcomes)
		if a.truncated {
			exhaustive = false
		}
		rules = append(rules, n+": "+a.rule)
		for _, s := range a.samples {
			if len(samples) < 12 {
				samples = append(samples, n+": "+s)
			}
		}
		pi := map[string]interface{}{"executions": a.exec, "transitions": a.trans, "distinct_states": len(a.states),
			"distinct_observation_logs": len(a.outcomes), "max_choice_points": a.maxPoints, "exhaustive": !a.truncated, "wall_s": round2(a.wall)}
		if a.truncated {
			pi["cap_hit"] = a.reason
		}
		for k, v := range a.extra {
			pi[k] = v
		}
		profInfo[n] = pi
	}
	if len(samples) == 0 {
		samples = append(samples, "(no executions)")
	}
	cov := map[string]interface{}{
		"states":                        max64(int64(len(allStates)), 1),
		"transitions":                   max64(totalTrans, 1),
		"traces_validated_against_impl": validated,
		"samples":                       samples,
		"evaluations":                   max64(totalExec, 1),
		"distinct_nontrivial":           max64(int64(allOutcomes), 2),
		"rule":                          strings.Join(rules, " || ") + " -- distinct_nontrivial counts executions with pairwise different observation logs",
		"exhaustive":                    exhaustive,
		"profiles":                      profInfo,
		"workers":                       nw,
		"known_findings_hit":            len(knownHit),
		"free_running_validation_runs":  freeRuns,
		"violation_signatures":          sigCounts,
		"explanation":                   "bounded exhaustive exploration of the real gkvlite code (instrumented overlay build of /repo's working tree); states = distinct (model state, flush stack, cache digest) triples reached; transitions = API calls executed; traces_validated_against_impl = explored histories replayed through the public API on the pristine (untagged, non-overlay) build with identical observation logs",
	}
	if tier == "thorough" && freeRuns > 0 {
		cov["race_audit"] = map[string]interface{}{
			"what":                           "the concurrent harness bodies run free under the race detector on the pristine build; the unchanged tree races by design in the unsynchronised accessors (never an oracle). Audit: every racy access must lie in a function that carries a scheduling point (T3: methods of nodeLoc/itemLoc/node); sites outside are interleaving sources the scheduler does not cover",
			"race_reports":                   raceReports,
			"racy_functions":                 raceSites,
			"outside_instrumented_accessors": raceOutside,
		}
	}
	ev := map[string]interface{}{
		"property_id": id, "tier": tier, "seed": seed, "level": level, "coverage": cov,
		"assumptions": []string{"sequential consistency; code between two scheduling points is atomic (DESIGN.md 3.2)", "alphabets and bounds as stated in coverage.rule", "the overlay shims preserve semantics (checked by the pristine-build replay counted in traces_validated_against_impl)"},
		"wall_s":      round2(time.Since(start).Seconds()), "violations": len(newViol),
	}
	os.MkdirAll(filepath.Join(verifDir, "evidence"), 0o755)
	eb, _ := json.MarshalIndent(ev, "", " ")
	if os.Getenv("VERIF_PROFILE") != "" {
		fmt.Println("(VERIF_PROFILE set: partial run, evidence file not written)")
	} else if err := os.WriteFile(filepath.Join(verifDir, "evidence", id+".json"), eb, 0o644); err != nil {
		die(2, "%v", err)
	}

	// 8. report
	fmt.Printf("%s %s: %d executions, %d transitions, %d distinct states, %d distinct outcomes, %d traces validated on the pristine build, exhaustive=%v, %.1fs\n",
		id, tier, totalExec, totalTrans, len(allStates), allOutcomes, validated, exhaustive, time.Since(start).Seconds())
	for _, n := range order {
		a := aggs[n]
		fmt.Printf("  profile %-10s exec=%-9d states=%-7d outcomes=%-8d exhaustive=%v\n", n, a.exec, len(a.states), len(a.outcomes), !a.truncated)
	}
	if len(mismatches) > 0 && len(newViol) == 0 {
		for _, m := range mismatches {
			fmt.Fprintln(os.Stderr, "BINDING-MISMATCH:", m)
		}
		die(2, "instrumented and pristine builds disagree (framework error, no verdict)")
	}
	for _, m := range mismatches {
		fmt.Fprintln(os.Stderr, "note (pristine build):", tail(m, 600))
	}
	var whats []string
	for w := range knownHit {
		whats = append(whats, w)
	}
	sort.Strings(whats)
	for _, w := range whats {
		fmt.Printf("KNOWN-FINDING: property=%s %s\n", id, w)
	}
	if len(newViol) > 0 {
		os.MkdirAll(filepath.Join(verifDir, "replays"), 0o755)
		for _, f := range newViol {
			h := sha1.Sum([]byte(f.Viol.Sig + f.Profile))
			path := filepath.Join(verifDir, "replays", fmt.Sprintf("%s-%x.json", id, h[:5]))
			fb, _ := json.MarshalIndent(struct {
				explore.Found
				Tier string
			}{f, tier}, "", " ")
			os.WriteFile(path, fb, 0o644)
			fmt.Printf("VIOLATION property=%s replay=%s\n", id, path)
			fmt.Printf("  [%s] profile=%s seen=%d\n  %s\n", f.Viol.Sig, f.Profile, sigCounts[f.Viol.Sig], indent(f.Viol.Msg))
		}
		cleanupAndExit(1)
	}
	cleanupAndExit(0)
}

func indent(s string) string { return strings.ReplaceAll(s, "\n", "\n    ") }

func tail(s string, n int) string {
	if len(s) > n {
		return s[len(s)-n:]
	}
	return s
}

func round2(f float64) float64 { return float64(int(f*100)) / 100 }

func max64(a, b int64) int64 {
	if a > b {
		return a
	}
	return b
}
