//go:build verif

package gkvlite

// This file is added to package gkvlite by the verification overlay only
// (build tag verif).  It gives the harness a side-effect-free view of private
// state and a way to reset the package-global free lists between executions.

import (
	"sync"
	"unsafe"
)

// VerifReset empties the package-global free lists and statistics so that one
// execution cannot influence the next.
func VerifReset() {
	freeNodeLock = sync.Mutex{}
	freeNodeLocLock = sync.Mutex{}
	freeRootNodeLocLock = sync.Mutex{}
	freeNodes = nil
	freeNodeLocs = nil
	freeRootNodeLocs = nil
	allocStats = AllocStats{}
}

// VerifNode describes one cached node of a collection's tree.
type VerifNode struct {
	ID                      uintptr // address of the node (identity only)
	Depth                   int
	Key                     []byte // nil when the item is not cached
	Priority                int32
	ItemCached              bool
	ValCached               bool
	ItemHasLoc              bool
	ItemOff                 int64
	ItemLen                 uint32
	NodeHasLoc              bool // the nodeLoc pointing here is persisted
	NumNodes                uint64
	NumBytes                uint64
	LeftCached, RightCached bool // child node present in memory
	LeftEmpty, RightEmpty   bool // child nodeLoc empty (no loc, no node)
	Marked                  bool // node.next != nil
	MarkOwn                 bool // node.next == &currentRoot.reclaimMark
	Free                    bool // node is on the global free list
	ItemPtr                 uintptr
}

// VerifFreeNodeSet returns the identities of the nodes on the free list
// (bounded walk: a cyclic list is reported via ok=false).
func VerifFreeNodeSet() (set map[uintptr]bool, ok bool) {
	set = map[uintptr]bool{}
	n := freeNodes
	for i := 0; n != nil; i++ {
		id := uintptr(unsafe.Pointer(n))
		if set[id] || i > 10000000 {
			return set, false
		}
		set[id] = true
		n = n.next
	}
	return set, true
}

// VerifFreeCounts returns the lengths of the three free lists.
func VerifFreeCounts() (nodes, nodeLocs, rootNodeLocs int) {
	for n := freeNodes; n != nil && nodes < 10000000; n = n.next {
		nodes++
	}
	for n := freeNodeLocs; n != nil && nodeLocs < 10000000; n = n.next {
		nodeLocs++
	}
	for n := freeRootNodeLocs; n != nil && rootNodeLocs < 10000000; n = n.next {
		rootNodeLocs++
	}
	return
}

// VerifWalk returns the cached part of the collection's current tree in
// in-order, without loading, evicting or pinning anything.
func VerifWalk(c *Collection) []VerifNode {
	if c == nil || c.root == nil {
		return nil
	}
	free, _ := VerifFreeNodeSet()
	var out []VerifNode
	var mark *node
	mark = &c.root.reclaimMark
	seen := map[*node]bool{}
	var rec func(nl *nodeLoc, depth int)
	rec = func(nl *nodeLoc, depth int) {
		if nl == nil || nl.node == nil || depth > 100000 {
			return
		}
		n := nl.node
		if seen[n] {
			return
		}
		seen[n] = true
		isFree := free[uintptr(unsafe.Pointer(n))]
		if !isFree {
			rec(&n.left, depth+1)
		}
		v := VerifNode{
			ID: uintptr(unsafe.Pointer(n)), Depth: depth,
			NodeHasLoc: !nl.loc.isEmpty(),
			NumNodes:   n.numNodes, NumBytes: n.numBytes,
			LeftCached: n.left.node != nil, RightCached: n.right.node != nil,
			LeftEmpty:  n.left.loc.isEmpty() && n.left.node == nil,
			RightEmpty: n.right.loc.isEmpty() && n.right.node == nil,
			Marked:     n.next != nil, MarkOwn: n.next == mark,
			Free: isFree,
		}
		if !n.item.loc.isEmpty() {
			v.ItemHasLoc = true
			v.ItemOff = n.item.loc.Offset
			v.ItemLen = n.item.loc.Length
		}
		if it := n.item.item; it != nil {
			v.ItemCached = true
			v.Key = it.Key
			v.Priority = it.Priority
			v.ValCached = it.Val != nil
			v.ItemPtr = uintptr(unsafe.Pointer(it))
		}
		out = append(out, v)
		if !isFree {
			rec(&n.right, depth+1)
		}
	}
	rec(c.root.root, 0)
	return out
}

// VerifRootInfo describes the current version handle of a collection.
type VerifRootInfo struct {
	ID           uintptr
	Refs         int64
	Chained      bool
	ReclaimLater int
	RootCached   bool
	RootHasLoc   bool
	RootOff      int64
}

func VerifRoot(c *Collection) (ri VerifRootInfo, ok bool) {
	if c == nil || c.root == nil {
		return ri, false
	}
	r := c.root
	ri.ID = uintptr(unsafe.Pointer(r))
	ri.Refs = r.refs
	ri.Chained = r.chainedRootNodeLoc != nil
	for _, x := range r.reclaimLater {
		if x != nil {
			ri.ReclaimLater++
		}
	}
	if r.root != nil {
		ri.RootCached = r.root.node != nil
		if !r.root.loc.isEmpty() {
			ri.RootHasLoc = true
			ri.RootOff = r.root.loc.Offset
		}
	}
	return ri, true
}

// VerifStoreSize returns the store's logical size.
func VerifStoreSize(s *Store) int64 { return s.getSize() }

// VerifStoreFile returns the StoreFile a store is using (nil for memory-only or closed).
func VerifStoreFile(s *Store) StoreFile { return s.file }

// VerifAllocStats returns the package-global allocation statistics.
func VerifAllocStats() AllocStats {
	return allocStats
}

// VerifCASHook, when set, is called by the harness wrapper around published
// versions; see VerifRootID.
func VerifRootID(c *Collection) uintptr {
	if c == nil {
		return 0
	}
	return uintptr(unsafe.Pointer(c.root))
}
