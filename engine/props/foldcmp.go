package props

import (
	"bytes"
	"fmt"
	"sort"
	"strings"

	"github.com/cbehopkins/gkvlite"

	"gkvverif/explore"
	"gkvverif/harness"
)

// foldCmpExec: a collection under a comparator that identifies byte-different
// keys (ASCII case folding).  The library must treat keys that compare equal as
// one key everywhere (lookup, overwrite, delete, split/join): the search order
// stays strict under the comparator, the item count is the number of distinct
// keys under the comparator and the byte total is that of the items present.
// The model is a map keyed by the folded key; which spelling of the key the
// store keeps after an overwrite is not prescribed, only that there is one.
func foldCmpExec(depth int) explore.Exec {
	fold := func(a, b []byte) int { return bytes.Compare(bytes.ToLower(a), bytes.ToLower(b)) }
	spell := []string{"a", "A", "b", "B", "c", "Cc", "cC"}
	type mitem struct {
		val  string
		prio int32
	}
	return func(c *explore.Chooser) *explore.Outcome {
		out := &explore.Outcome{}
		var hist []string
		var viols []harness.Viol
		var log strings.Builder
		fail := func(sig, format string, a ...interface{}) {
			if len(viols) < 4 {
				viols = append(viols, harness.Viol{Oracle: "invariant", Sig: "invariant:fold-" + sig, Msg: fmt.Sprintf(format, a...)})
			}
		}
		res := harness.RunExec(c, false, 0, func() {
			cb := gkvlite.StoreCallbacks{KeyCompareForCollection: func(string) gkvlite.KeyCompare { return fold }}
			f := &harness.MemFile{}
			harness.BeginOp("open")
			st, err := gkvlite.NewStoreEx(f, cb)
			if err != nil {
				fail("open", "NewStore: %v", err)
				return
			}
			x := st.SetCollection("x", fold)
			model := map[string]mitem{}
			check := func(label string) {
				harness.BeginOp("check")
				n, b, err := x.GetTotals()
				var keys []string
				var sum uint64
				var prev []byte
				verr := x.VisitItemsAscend([]byte{}, true, func(it *gkvlite.Item) bool {
					if prev != nil && fold(prev, it.Key) >= 0 {
						fail("order", "%s: the visit delivers %q after %q: not strictly ascending under the comparator", label, it.Key, prev)
					}
					prev = append([]byte{}, it.Key...)
					fk := strings.ToLower(string(it.Key))
					keys = append(keys, fk)
					sum += uint64(len(it.Key) + len(it.Val))
					if m, ok := model[fk]; !ok || m.val != string(it.Val) || m.prio != it.Priority {
						fail("item", "%s: the visit delivers (%q,%d,%q); the model has %v under %q", label, it.Key, it.Priority, it.Val, m, fk)
					}
					return true
				})
				var want []string
				for k := range model {
					want = append(want, k)
				}
				sort.Strings(want)
				if err != nil || verr != nil || strings.Join(keys, ",") != strings.Join(want, ",") {
					fail("keys", "%s: the collection holds %v (errors %v, %v), the model %v", label, keys, err, verr, want)
				}
				if n != uint64(len(model)) || b != sum {
					fail("totals", "%s: GetTotals = (%d,%d) but %d keys are distinct under the comparator and the items present sum to %d bytes", label, n, b, len(model), sum)
				}
				fmt.Fprintf(&log, "%s:%v;", label, keys)
			}
			for step := 0; step < depth; step++ {
				k := harness.Choose(2*len(spell)+4, harness.ClassOp)
				if k == 0 {
					break
				}
				k--
				switch {
				case k < len(spell):
					key := spell[k]
					val, prio := fmt.Sprintf("v%d-%s", step, key), int32(len(spell)-k)
					hist = append(hist, fmt.Sprintf("Set(%s,%d)", key, prio))
					harness.BeginOp("Set")
					if err := x.SetItem(&gkvlite.Item{Key: []byte(key), Val: []byte(val), Priority: prio}); err != nil {
						fail("set", "SetItem(%q): %v", key, err)
					}
					model[strings.ToLower(key)] = mitem{val, prio}
				case k < 2*len(spell):
					key := spell[k-len(spell)]
					hist = append(hist, fmt.Sprintf("Del(%s)", key))
					harness.BeginOp("Delete")
					ok, err := x.Delete([]byte(key))
					_, had := model[strings.ToLower(key)]
					if err != nil || ok != had {
						fail("delete", "Delete(%q) = (%v,%v), the model has the key: %v", key, ok, err, had)
					}
					delete(model, strings.ToLower(key))
				case k == 2*len(spell):
					hist = append(hist, "Flush")
					harness.BeginOp("Flush")
					if err := st.Flush(); err != nil {
						fail("flush", "Flush: %v", err)
					}
				case k == 2*len(spell)+1:
					hist = append(hist, "Evict")
					x.EvictSomeItems()
				default:
					hist = append(hist, "Flush+Reopen")
					harness.BeginOp("Reopen")
					if err := st.Flush(); err != nil {
						fail("flush", "Flush: %v", err)
					}
					st.Close()
					st, err = gkvlite.NewStoreEx(f, cb)
					if err != nil {
						fail("open", "re-open: %v", err)
						return
					}
					x = st.GetCollection("x")
				}
				for _, key := range []string{"A", "b", "CC"} {
					harness.BeginOp("Get")
					v, err := x.Get([]byte(key))
					m, had := model[strings.ToLower(key)]
					if err != nil || (v != nil) != had || (had && string(v) != m.val) {
						fail("get", "after [%s]: Get(%q) = (%q,%v), the model has %v (present %v)", strings.Join(hist, " "), key, v, err, m, had)
					}
				}
			}
			check("end")
			st.Close()
		})
		for _, v := range viols {
			out.Viols = append(out.Viols, explore.Viol{Oracle: v.Oracle, Sig: v.Sig, Msg: v.Msg + " after [" + strings.Join(hist, " ") + "]"})
		}
		out.Viols = append(out.Viols, verdictViol(res, hist)...)
		out.Sample = strings.Join(hist, " ")
		out.Log = log.String() + "|" + out.Sample
		out.Transitions = len(hist)
		out.ObsHash = harness.HashString(out.Log)
		out.StateHash = harness.HashString(log.String())
		out.NonTrivial = len(hist) >= 2
		return out
	}
}

func foldCmpProfile(depth int) Profile {
	return Profile{Name: "comparator-fold", Exec: foldCmpExec(depth), Budget: map[int]int{explore.ClassRand: 0},
		Rule: fmt.Sprintf("a collection under a case-folding comparator (byte-different keys that compare equal): every history of length <= %d over Set and Delete of 7 spellings of 3 keys, Flush, Evict, Flush+Reopen; after every step lookups through other spellings, at the end a full visit: strictly ascending under the comparator, one item per key of the model (keyed by the folded key) with the latest value and priority, GetTotals = number of distinct keys and the byte sum of the items present, Delete reports presence under the comparator", depth)}
}
