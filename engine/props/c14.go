package props

import (
	"fmt"
	"strings"

	"gkvverif/harness"
)

func c14Profiles(tier string) []Profile {
	mon := harness.Monitors{Format: true, Tiling: true}
	d, ds := 5, 3
	if tier == "thorough" {
		d, ds = 6, 4
	}
	keys := [][]byte{kA, kB}
	hist := &SeqProfile{Name: "flushes", Keys: keys, Depth: d, Init: initX, Mon: mon,
		Letters: func(w *harness.World) []Letter {
			ls := storeLetters(true, true)(w)
			// the second collection may also be created under the reverse comparator
			ls = append(ls, Letter{"SetColl(y,rev)", func(w *harness.World) {
				if mc := w.M.Cur.Colls[yName]; mc == nil || len(mc.Items) <= 1 {
					w.SetCollection(yName, "rev")
					w.SetItem(yName, kB, 2, bs("yb"))
				}
			}})
			if !w.Closed {
				ls = append(ls, Letter{"CopyTo(orig,1)", func(w *harness.World) { w.CopyTo(-1, 1) }},
					Letter{"CopyTo(orig,2)", func(w *harness.World) { w.CopyTo(-1, 2) }})
			}
			return ls
		}}
	long := func(n int, b byte) []byte {
		k := make([]byte, n)
		for i := range k {
			k[i] = b + byte(i%7)
		}
		return k
	}
	names := []string{"x", "", "a b", `q"\`, "ü", "c\x01\x7f\t"}
	klens := []int{1, 2, 255, 256, 65535}
	vlens := []int{0, 1, 255, 65536, 70000}
	var skeys [][]byte
	for _, kl := range klens {
		skeys = append(skeys, long(kl, 'k'))
	}
	sizes := &SeqProfile{Name: "sizes", Keys: skeys, Depth: ds, Mon: mon,
		Letters: func(w *harness.World) []Letter {
			var ls []Letter
			for _, n := range names {
				n := n
				if _, ok := w.Colls[n]; !ok {
					ls = append(ls, Letter{fmt.Sprintf("SetColl(%q)", n), func(w *harness.World) { w.SetCollection(n, "nil") }})
				}
			}
			// mutations go to the lexically first existing collection and to "ü"
			for _, n := range []string{"", "ü", "x"} {
				n := n
				if _, ok := w.Colls[n]; !ok {
					continue
				}
				for i, kl := range klens {
					kl, vl := kl, vlens[i]
					ls = append(ls, Letter{fmt.Sprintf("Set(%q,klen%d,vlen%d)", n, kl, vl), func(w *harness.World) {
						w.SetItem(n, long(kl, 'k'), int32(kl%5), long(vl, 'v'))
					}})
				}
				ls = append(ls, Letter{fmt.Sprintf("Set(%q,klen1,vlen70000)", n), func(w *harness.World) { w.SetItem(n, long(1, 'k'), 9, long(70000, 'w')) }})
				break
			}
			ls = append(ls, Letter{"Flush", func(w *harness.World) { w.Flush() }},
				Letter{"Reopen", func(w *harness.World) { w.Reopen(true) }})
			return ls
		}}
	var conc []Profile
	for _, sc := range append(c05Scenarios(), c05More()...) {
		if sc.Name == "S8-flushes" || sc.Name == "S4-flush" {
			conc = append(conc, sc.Profile(1))
		}
	}
	conc = append(conc, Profile{Name: "after-failed-flush", Exec: OnlyOracles(c07ExecMon(1, 1, false, harness.Monitors{Format: true}), "format", "durable", "observe"),
		Budget: map[int]int{1: 0, 2: 0, 3: 1}, ShardLevel: 3,
		Rule: "the file produced by a Flush that follows a failed one (one failing file call at every index, torn writes, retried or not): the independent decoder must accept it and reconstruct the flushed state"})
	hf := *hist
	hf.Name, hf.Depth, hf.CBMask = "flushes-framed", d-2, harness.CBFramed
	hf.Letters = func(w *harness.World) []Letter {
		var ls []Letter
		for _, l := range hist.Letters(w) {
			if !strings.HasPrefix(l.Name, "CopyTo") { // CopyTo's destination store has default callbacks: a plain copy
				ls = append(ls, l)
			}
		}
		return ls
	}
	hv := hf
	hv.Name, hv.CBMask = "flushes-valframed", harness.CBValFramed
	conc = append(conc, hv.Profile(fmt.Sprintf("the flushes profile (histories of length <= %d) with the ItemValLength / ItemValWrite / ItemValRead triple that stores every value with a two-byte trailer: item record lengths, node aggregates (compared exactly: key length + stored value length) and the tiling of the appended region must all describe the stored form", d-2)))
	conc = append(conc, hf.Profile(fmt.Sprintf("the flushes profile (histories of length <= %d) with a BeforeItemWrite / AfterItemRead pair that stores every value with a two-byte trailer: every item record must be exactly what BeforeItemWrite returned (the decoder verifies and strips the trailer), lengths in item and node records must describe the stored form, and the appended region must be tiled by the records", d-2)))
	return append(conc, []Profile{
		hist.Profile(fmt.Sprintf("every history of length <= %d over the C02 store alphabet plus CopyTo(flushEvery 1,2); after every Flush and for every CopyTo destination an independent decoder of the documented v4 layout (shares no code with gkvlite) must accept every record, find children below their parents, recompute every persisted aggregate, reconstruct exactly the model's flushed state, and the bytes appended by the Flush must be tiled exactly by the item, node and root records reachable from the new root", d)),
		sizes.Profile(fmt.Sprintf("every history of length <= %d over collection names {\"x\", \"\", \"a b\", q\"\\, u-umlaut, a name with control characters 0x01 0x7f TAB} (including empty collections), key lengths {1,2,255,256,65535} x value lengths {0,1,255,65536,70000}, Flush, Reopen; same decoder oracle", ds)),
	}...)
}

func init() {
	register(&Spec{ID: "C14", Level: "model_checking", Profiles: c14Profiles})
}
