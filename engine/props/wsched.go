package props

import (
	"fmt"
	"strings"

	"gkvverif/explore"
	"gkvverif/harness"
)

// WorldScenario is a concurrent scenario whose threads use the World's
// operations and monitors (reference counting, read monitor).  Only operations
// whose monitor flags agree may run concurrently (the flags are per World).
type WorldScenario struct {
	Name    string
	Desc    string
	Mon     harness.Monitors
	Keys    [][]byte
	Setup   func(w *harness.World)
	Threads []func(w *harness.World)
	Finish  func(w *harness.World)
	// Dynamic, when set, builds the threads from explorer choices (operation
	// mixes); it runs after Setup.
	Dynamic func(w *harness.World) ([]func(w *harness.World), string)
	// SigWithMix makes the mix part of every violation signature, so that a
	// known finding can be listed per failing mix.
	SigWithMix bool
}

func (sc *WorldScenario) Exec() explore.Exec {
	return func(c *explore.Chooser) *explore.Outcome {
		var w *harness.World
		mix := ""
		res := harness.RunExec(c, true, 0, func() {
			w = harness.NewWorld(sc.Mon, 0, sc.Keys, false)
			sc.Setup(w)
			if len(w.Viols) > 0 {
				return
			}
			done := 0
			threads := sc.Threads
			if sc.Dynamic != nil {
				threads, mix = sc.Dynamic(w)
			}
			n := len(threads)
			for _, th := range threads {
				th := th
				harness.Go(func() {
					th(w)
					done++
				})
			}
			harness.BlockUntil(func() bool { return done == n })
			harness.Quiesce()
			if sc.Finish != nil {
				sc.Finish(w)
			}
		})
		out := &explore.Outcome{}
		if w != nil {
			for _, v := range w.Viols {
				if sc.SigWithMix {
					v.Sig += "@" + strings.TrimSpace(mix)
				}
				out.Viols = append(out.Viols, explore.Viol{Oracle: v.Oracle, Sig: v.Sig, Msg: sc.Name + mix + ": " + v.Msg})
			}
			out.Sample = fmt.Sprintf("%s%s: %d choices; log: %s", sc.Name, mix, len(c.Points), strings.Join(w.Log, " | "))
			out.ObsHash = harness.HashString(strings.Join(w.Log, "|"))
			out.StateHash = out.ObsHash
		}
		out.Transitions = int(res.Points)
		out.NonTrivial = res.Switches > 2
		out.Viols = append(out.Viols, verdictViol(res, []string{sc.Name})...)
		return out
	}
}

func (sc *WorldScenario) Profile(bound int) Profile {
	return Profile{Name: sc.Name, Exec: sc.Exec(), Budget: map[int]int{explore.ClassSched: bound, explore.ClassRand: 0}, ShardLevel: 2,
		Rule: fmt.Sprintf("%s; every schedule with at most %d preemptions", sc.Desc, bound)}
}
