package props

import (
	"fmt"
	"strings"

	"gkvverif/explore"
	"gkvverif/harness"
)

// WorldScenario is a concurrent scenario whose threads use the World's
// operations and monitors (reference counting, read monitor).  Only operations
// whose monitor flags agree may run concurrently (the flags are per World).
type WorldScenario struct {
	Name    string
	Desc    string
	Mon     harness.Monitors
	Keys    [][]byte
	Setup   func(w *harness.World)
	Threads []func(w *harness.World)
	Finish  func(w *harness.World)
}

func (sc *WorldScenario) Exec() explore.Exec {
	return func(c *explore.Chooser) *explore.Outcome {
		var w *harness.World
		res := harness.RunExec(c, true, 0, func() {
			w = harness.NewWorld(sc.Mon, 0, sc.Keys, false)
			sc.Setup(w)
			if len(w.Viols) > 0 {
				return
			}
			done := 0
			n := len(sc.Threads)
			for _, th := range sc.Threads {
				th := th
				harness.Go(func() {
					th(w)
					done++
				})
			}
			harness.BlockUntil(func() bool { return done == n })
			harness.Quiesce()
			if sc.Finish != nil {
				sc.Finish(w)
			}
		})
		out := &explore.Outcome{}
		if w != nil {
			for _, v := range w.Viols {
				out.Viols = append(out.Viols, explore.Viol{Oracle: v.Oracle, Sig: v.Sig, Msg: sc.Name + ": " + v.Msg})
			}
			out.Sample = fmt.Sprintf("%s: %d scheduling choices; log: %s", sc.Name, len(c.Points), strings.Join(w.Log, " | "))
			out.ObsHash = harness.HashString(strings.Join(w.Log, "|"))
			out.StateHash = out.ObsHash
		}
		out.Transitions = int(res.Points)
		out.NonTrivial = res.Switches > int64(len(sc.Threads))
		out.Viols = append(out.Viols, verdictViol(res, []string{sc.Name})...)
		return out
	}
}

func (sc *WorldScenario) Profile(bound int) Profile {
	return Profile{Name: sc.Name, Exec: sc.Exec(), Budget: map[int]int{explore.ClassSched: bound, explore.ClassRand: 0}, ShardLevel: 2,
		Rule: fmt.Sprintf("%s; every schedule with at most %d preemptions", sc.Desc, bound)}
}
