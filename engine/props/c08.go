package props

import (
	"fmt"

	"gkvverif/harness"
)

func c08Profiles(tier string) []Profile {
	d, dm := 6, 3
	if tier == "thorough" {
		d, dm = 8, 4
	}
	file := &SeqProfile{Name: "revert", Keys: [][]byte{kA}, Depth: d, Init: initX, Mon: harness.Monitors{Durable: true, Append: true},
		StepLimit: 200000,
		Letters: func(w *harness.World) []Letter {
			var ls []Letter
			if _, ok := w.Colls["x"]; ok {
				ls = append(ls, Letter{"Set(a)", func(w *harness.World) { w.SetItem("x", kA, 1, bs("v")) }},
					Letter{"Del(a)", func(w *harness.World) { w.Delete("x", kA) }})
			} else {
				ls = append(ls, Letter{"SetColl(x)", func(w *harness.World) { w.SetCollection("x", "nil") }})
			}
			ls = append(ls, Letter{"Flush", func(w *harness.World) { w.Flush() }},
				Letter{"Revert", func(w *harness.World) { w.Revert() }},
				Letter{"Reopen", func(w *harness.World) { w.Reopen(true) }},
				Letter{"SetColl(y,rev)", func(w *harness.World) { w.SetCollection("y", "rev") }})
			// FlushRevert through a snapshot (read-only store: no truncation)
			w.ObserveRevertedSnaps = true
			open := false
			for i, sn := range w.Snaps {
				if !sn.Closed && !sn.Reverted {
					open = true
					i := i
					ls = append(ls, Letter{fmt.Sprintf("RevertSnap(s%d)", i), func(w *harness.World) { w.RevertSnap(i) }})
				}
			}
			if !open {
				ls = append(ls, Letter{"Snap", func(w *harness.World) { w.Snapshot(-1) }})
			}
			if _, ok := w.Colls["y"]; ok {
				ls = append(ls, Letter{"Set(y.a)", func(w *harness.World) { w.SetItem("y", kA, 1, bs("ya")) }},
					Letter{"Set(y.b)", func(w *harness.World) { w.SetItem("y", kB, 2, bs("yb")) }})
			}
			return ls
		}}
	mem := &SeqProfile{Name: "memory", Keys: [][]byte{kA}, Depth: dm, NoFile: true, Init: initX,
		Letters: func(w *harness.World) []Letter {
			return []Letter{{"Set(a)", func(w *harness.World) { w.SetItem("x", kA, 1, bs("v")) }},
				{"Revert", func(w *harness.World) { w.Revert() }},
				{"Flush", func(w *harness.World) { w.Flush() }}}
		}}
	// the flush being reverted has every payload size in a range wider than any
	// plausible scan chunk, and its data may contain the end marker itself
	sizes := &SeqProfile{Name: "sizes", Keys: [][]byte{kA, kB, kC}, Depth: 0, Mon: harness.Monitors{Durable: true, Append: true}, StepLimit: 400000,
		Init: func(w *harness.World) {
			n := harness.Choose(4300, harness.ClassOp)
			magic := harness.Choose(4, harness.ClassOp)
			w.Hist = append(w.Hist, fmt.Sprintf("Set(a) Flush Set(b) Flush Set(c, %d bytes, magic variant %d) Flush Revert Revert", n, magic))
			w.SetCollection("x", "nil")
			w.SetItem("x", kA, 1, bs("va"))
			w.Flush()
			w.SetItem("x", kB, 2, bs("vb"))
			w.Flush()
			val := make([]byte, n)
			for i := range val {
				val[i] = byte('a' + i%19)
			}
			mm := []byte("3e4a5p3e4a5p")
			switch magic {
			case 1:
				val = append(val, mm...)
			case 2:
				val = append(append(append([]byte{}, mm...), val...), mm...)
			case 3:
				// the value ends in a byte-exact copy of the first root record of this
				// very file (a backup of the store kept inside the store)
				if rs := harness.AllRoots(w.File.Data); len(rs) > 0 {
					val = append(val, w.File.Data[rs[0].Off:rs[0].End]...)
				}
			}
			w.SetItem("x", kC, 3, val)
			w.Flush()
			w.Revert()
			if len(w.Viols) == 0 {
				w.ObserveAll()
				w.Revert()
			}
		},
		Letters: func(w *harness.World) []Letter { return nil }}
	faulted := Profile{Name: "faulted-revert", Exec: OnlyOracles(c07Exec(2, 1, false), "observe", "model", "durable", "revert"),
		Budget: map[int]int{1: 0, 2: 0, 3: 1}, ShardLevel: 3,
		Rule: "FlushRevert when a file call fails: the C07 driver (8 initial stores x every history of length <= 2, e.g. a Flush that fails and is not retried followed by FlushRevert, x one failing file call at every index, retried or not; a call that reports success is taken at its word) followed by Set, Flush, the full read battery, a copy of the file re-opened, Reopen and the battery again; contents oracles only: a FlushRevert after a failed Flush must succeed, and a FlushRevert that returns nil has landed exactly one flush back, in memory and in the file (a read fault on a root record or a failed Truncate that is not reported shows as a wrong state)"}
	return []Profile{
		faulted,
		sizes.Profile("history [Set Flush, Set Flush, Set(c, value) Flush, FlushRevert, FlushRevert] for every value length 0..4299 x {plain value, value ending in the doubled end marker, value starting and ending with it, value ending in a byte-exact copy of the file's first root record}: each revert must terminate (step budget), land exactly one flush back, truncate to that flush's root end, and a copy of the file must re-open to the same state"),
		file.Profile(fmt.Sprintf("every history of length <= %d over Set/Delete of one key, SetCollection(x), SetCollection(y, reverse comparator) with two keys, Snapshot and FlushRevert of the snapshot, Flush, FlushRevert, Reopen: zero, one and many flushes, reverts past the first flush, reverts with unflushed changes pending and across re-opens; after every FlushRevert: nil result within the step budget, state = flush stack entry below the top, file length = end of that flush's root record (or 0), and a copy of the file re-opens to the same state", d)),
		mem.Profile(fmt.Sprintf("every history of length <= %d on a memory-only store: FlushRevert and Flush must return an error and change nothing", dm)),
	}
}

func init() {
	register(&Spec{ID: "C08", Level: "model_checking", Profiles: c08Profiles})
}
