package props

import (
	"fmt"

	"gkvverif/harness"
)

func c08Profiles(tier string) []Profile {
	d, dm := 6, 3
	if tier == "thorough" {
		d, dm = 8, 4
	}
	file := &SeqProfile{Name: "revert", Keys: [][]byte{kA}, Depth: d, Init: initX, Mon: harness.Monitors{Durable: true, Append: true},
		StepLimit: 200000,
		Letters: func(w *harness.World) []Letter {
			var ls []Letter
			if _, ok := w.Colls["x"]; ok {
				ls = append(ls, Letter{"Set(a)", func(w *harness.World) { w.SetItem("x", kA, 1, bs("v")) }},
					Letter{"Del(a)", func(w *harness.World) { w.Delete("x", kA) }})
			} else {
				ls = append(ls, Letter{"SetColl(x)", func(w *harness.World) { w.SetCollection("x", "nil") }})
			}
			ls = append(ls, Letter{"Flush", func(w *harness.World) { w.Flush() }},
				Letter{"Revert", func(w *harness.World) { w.Revert() }},
				Letter{"Reopen", func(w *harness.World) { w.Reopen(true) }},
				Letter{"SetColl(y)", func(w *harness.World) { w.SetCollection("y", "nil") }})
			return ls
		}}
	mem := &SeqProfile{Name: "memory", Keys: [][]byte{kA}, Depth: dm, NoFile: true, Init: initX,
		Letters: func(w *harness.World) []Letter {
			return []Letter{{"Set(a)", func(w *harness.World) { w.SetItem("x", kA, 1, bs("v")) }},
				{"Revert", func(w *harness.World) { w.Revert() }},
				{"Flush", func(w *harness.World) { w.Flush() }}}
		}}
	return []Profile{
		file.Profile(fmt.Sprintf("every history of length <= %d over Set/Delete of one key, SetCollection(x|y), Flush, FlushRevert, Reopen: zero, one and many flushes, reverts past the first flush, reverts with unflushed changes pending and across re-opens; after every FlushRevert: nil result within the step budget, state = flush stack entry below the top, file length = end of that flush's root record (or 0), and a copy of the file re-opens to the same state", d)),
		mem.Profile(fmt.Sprintf("every history of length <= %d on a memory-only store: FlushRevert and Flush must return an error and change nothing", dm)),
	}
}

func init() {
	register(&Spec{ID: "C08", Level: "model_checking", Profiles: c08Profiles})
}
