package props

import (
	"bytes"
	"fmt"
	"os"
	"os/exec"
	"sort"
	"strings"

	"gkvverif/harness"
)

// readOnlyLetters: every read-only entry point of the package on collection x.
func readOnlyLetters(w *harness.World) []Letter {
	if _, ok := w.Colls["x"]; !ok || w.Closed {
		return nil
	}
	return []Letter{
		{"Get(a)", func(w *harness.World) { w.Get("x", kA) }},
		{"GetItem(b,-)", func(w *harness.World) { w.GetItem("x", kB, false) }},
		{"Exist(a)", func(w *harness.World) { w.Exist("x", kA) }},
		{"Min", func(w *harness.World) { w.MinMax("x", false, true) }},
		{"Max", func(w *harness.World) { w.MinMax("x", true, false) }},
		{"Asc", func(w *harness.World) { w.Visit("x", harness.APIAscend, []byte{}, true, -1) }},
		{"DescEx", func(w *harness.World) { w.Visit("x", harness.APIDescendEx, bs("zz"), false, -1) }},
		{"Iter", func(w *harness.World) { w.Visit("x", harness.APIIterAscend, kB, true, -1) }},
		{"Len", func(w *harness.World) { w.LenOp("x") }},
		{"BlockEx", func(w *harness.World) { w.BlockVisit("x", true) }},
		{"Random", func(w *harness.World) { w.RandomVisit("x") }},
		{"Evict", func(w *harness.World) { w.Evict("x") }},
		{"Stats", func(w *harness.World) { w.Stats() }},
		{"CopyTo(orig,1)", func(w *harness.World) { w.CopyTo(-1, 1) }},
		{"CopyTo(orig,1 -> existing)", func(w *harness.World) { w.CopyToExisting(1) }},
	}
}

var viewSeen = map[uint64]bool{}

// viewCheck runs tools/view (built from the tree, path in VERIF_VIEW) on the
// flushed image: its output must equal the model and it must not modify the file.
func viewCheck(w *harness.World) {
	bin := os.Getenv("VERIF_VIEW")
	if bin == "" || w.File == nil || len(w.M.Flushed) == 0 || !harness.Instrumented {
		return
	}
	h := harness.HashString(string(w.File.Data))
	if viewSeen[h] {
		return
	}
	viewSeen[h] = true
	f, err := os.CreateTemp("", "gkvview-*.gkvlite")
	if err != nil {
		return
	}
	defer os.Remove(f.Name())
	f.Write(w.File.Data)
	f.Close()
	os.Chmod(f.Name(), 0o444)
	dur := w.M.Durable()
	out, err := exec.Command(bin, f.Name(), "names").CombinedOutput()
	want := ""
	for _, n := range dur.Names() {
		want += n + "\n"
	}
	if err != nil || string(out) != want {
		w.Fail("view", "names", "tools/view names printed %q (err %v), the durable state has %q", out, err, want)
	}
	for _, n := range dur.Names() {
		out, err := exec.Command(bin, f.Name(), "items", n).CombinedOutput()
		mc := dur.Colls[n]
		var lines []string
		for _, k := range mc.SortedKeys() {
			lines = append(lines, string(k)+"="+string(mc.Items[string(k)].Val))
		}
		sort.Strings(lines)
		want := strings.Join(lines, "\n")
		if len(lines) > 0 {
			want += "\n"
		}
		if err != nil || string(out) != want {
			w.Fail("view", "items", "tools/view items %s printed %q (err %v), the durable state has %q", n, out, err, want)
		}
	}
	after, _ := os.ReadFile(f.Name())
	if !bytes.Equal(after, w.File.Data) {
		w.Fail("view", "modified-file", "tools/view modified the file")
	}
}

// tornTail: a torn tail of every length below n after the last root record,
// then re-open (the store is the last flush), Set, Flush.
func tornTail(mon harness.Monitors, n int) *SeqProfile {
	maxTail := n
	return &SeqProfile{Name: "torntail", Keys: [][]byte{kA, kB}, Depth: 0, Mon: mon, StepLimit: 400000,
		Init: func(w *harness.World) {
			n := harness.Choose(maxTail, harness.ClassOp)
			withCopy := n%8 == 3 // every 8th length: the tail ends in a copy of the first root record
			w.Hist = append(w.Hist, fmt.Sprintf("Set(a) Flush Set(b) Flush +%d junk bytes (root copy %v), Reopen, Set(a), Flush", n, withCopy))
			w.SetCollection("x", "nil")
			w.SetItem("x", kA, 1, bs("v"))
			w.Flush()
			w.SetItem("x", kB, 2, bs("w"))
			w.Flush()
			junk := make([]byte, n)
			for i := range junk {
				junk[i] = byte('J' + i%7)
			}
			if withCopy {
				if rs := harness.AllRoots(w.File.Data); len(rs) > 0 {
					junk = append(junk, w.File.Data[rs[0].Off:rs[0].End]...)
				}
			}
			w.File.Data = append(w.File.Data, junk...)
			w.Reopen(true)
			ensureX(w)
			w.SetItem("x", kA, 3, bs("v2"))
			w.Flush()
		},
		Letters: func(w *harness.World) []Letter { return nil }}
}

func c09Profiles(tier string) []Profile {
	mon := harness.Monitors{Append: true, Tiling: true}
	d := 4
	dv := 3
	if tier == "thorough" {
		d = 5
		dv = 4
	}
	keys := [][]byte{kA, kB}
	// 1. read-only entry points in every cache state the histories reach
	ro := &SeqProfile{Name: "readpaths", Keys: keys, Depth: d, Init: initX, Mon: mon,
		Letters: func(w *harness.World) []Letter {
			ls := []Letter{
				{"Set(a,1)", func(w *harness.World) { w.SetItem("x", kA, 1, bs("v")) }},
				{"Set(b,2)", func(w *harness.World) { w.SetItem("x", kB, 2, bs("")) }},
				{"Del(a)", func(w *harness.World) { w.Delete("x", kA) }},
				{"Flush", func(w *harness.World) { w.Flush() }},
				{"Reopen", func(w *harness.World) { w.Reopen(true); ensureX(w) }},
				{"Revert", func(w *harness.World) { w.Revert(); ensureX(w) }},
			}
			ls = append(ls, readOnlyLetters(w)...)
			return append(ls, snapLetters(w, 1, true)...)
		}}
	// 2. the store-level alphabet of C02/C12 with the file monitor on
	stores := &SeqProfile{Name: "stores", Keys: keys, Depth: d + 1, Init: initX, Mon: mon,
		Letters: func(w *harness.World) []Letter {
			ls := storeLetters(true, true)(w)
			return append(ls, Letter{"Revert", func(w *harness.World) { w.Revert() }})
		}}
	// 3. tools/view on every distinct flushed image
	view := &SeqProfile{Name: "view", Keys: keys, Depth: dv, Init: initX, Mon: mon,
		Finish: func(w *harness.World) { StandardFinish(w); viewCheck(w) },
		Letters: func(w *harness.World) []Letter {
			return []Letter{
				{"Set(a,1)", func(w *harness.World) { w.SetItem("x", kA, 1, bs("v")) }},
				{"Set(b,2)", func(w *harness.World) { w.SetItem("x", kB, 2, bs("ww")) }},
				{"Del(a)", func(w *harness.World) { w.Delete("x", kA) }},
				{"SetColl(y)", func(w *harness.World) { w.SetCollection("y", "nil") }},
				{"Flush", func(w *harness.World) { w.Flush() }},
			}
		}}
	// a torn tail of every length after the last root record, then re-open and flush
	torn := tornTail(mon, 4400)
	faulted := Profile{Name: "faulted", Exec: OnlyOracles(c07Exec(1, 1, false), "append", "readonly-write"),
		Budget: map[int]int{1: 0, 2: 0, 3: 1}, ShardLevel: 3,
		Rule: "the C07 driver (8 initial stores x every single I/O-performing operation x one failing file call at every index, torn writes) evaluated with the file monitor only: a failed Flush, FlushRevert, open or CopyTo must not write below the last durable root record nor truncate to anything but 0 or a root-record end"}
	return []Profile{
		torn.Profile("history [Set Flush, Set Flush] + a torn tail of every length 0..4399 bytes appended after the last root record, then Reopen, Set, Flush under the file monitor (no write below the last durable root record, the Flush tiles from the logical size) and the model (the re-opened store is the last flush)"),
		faulted,
		ro.Profile(fmt.Sprintf("every history of length <= %d mixing Set/Delete/Flush/Reopen/FlushRevert with every read-only entry point (Get, GetItem, Exist, Min, Max, 3 visit APIs, iterator, Len, block and random visits, EvictSomeItems, Stats, CopyTo as source - into an empty file and into a file that already holds a store, which may only be appended to -, Snapshot and every snapshot method); every WriteAt/Truncate the store issues is checked: offset >= end of the last durable root record, writes of a Flush tile the appended region, Truncate only inside FlushRevert of the writable store and only to 0 or the end of a root record (independent decoder), zero writes/truncates during read-only calls", d)),
		stores.Profile(fmt.Sprintf("every history of length <= %d over the C02/C12 store alphabet (two collections, SetCollection/RemoveCollection, Evict, Flush, Reopen) plus FlushRevert, same per-call file checks", d+1)),
		view.Profile(fmt.Sprintf("every history of length <= %d over Set/Delete/SetCollection/Flush; tools/view (built from the tree) is run on every distinct flushed image: names and items output equal the model, file bytes unchanged", dv)),
	}
}

func init() {
	register(&Spec{ID: "C09", Level: "model_checking", Profiles: c09Profiles})
}
