// Package props holds, per property, the alphabets, bounds and oracles.
package props

import (
	"fmt"
	"strings"

	"gkvverif/explore"
	"gkvverif/harness"
)

// Profile is one exploration of a property.
type Profile struct {
	Name       string
	Exec       explore.Exec
	Budget     map[int]int
	ShardLevel int
	Rule       string // how cases are enumerated (evidence)
	// FreeRun: the same harness bodies are also run free (real goroutines, real
	// channels) on the pristine build as a validation of the scheduler model.
	FreeRun bool
}

// Spec describes the check of one property.
type Spec struct {
	ID       string
	Level    string // evidence level
	Profiles func(tier string) []Profile
	Assume   []string
}

var Registry = map[string]*Spec{}

func register(s *Spec) { Registry[s.ID] = s }

// Letter is one operation of an alphabet.
type Letter struct {
	Name string
	Do   func(w *harness.World)
}

// SeqProfile is a sequential history exploration (seqx).
type SeqProfile struct {
	Name      string
	Mon       harness.Monitors
	CBMask    int
	Keys      [][]byte
	NoFile    bool
	Depth     int
	Init      func(w *harness.World)
	Letters   func(w *harness.World) []Letter
	Finish    func(w *harness.World) // nil = StandardFinish
	StepLimit int64
	// MapOrders: explore both iteration orders of the library's string-keyed
	// maps (profiles with several collections).
	MapOrders bool
}

// StandardFinish runs the end-of-replay oracles selected by the monitors.
func StandardFinish(w *harness.World) {
	if w.Mon.Recycle {
		w.CheckRecycleDirect()
		w.Churn()
	}
	if w.Mon.RefCount {
		w.CheckRefLive()
	}
	w.ObserveAll()
	if w.Mon.Invariant {
		w.CheckInvariants()
	}
	if w.Mon.Durable {
		w.CheckDurable()
	}
}

func verdictViol(res harness.ExecResult, hist []string) []explore.Viol {
	var notes []explore.Viol
	for _, n := range harness.Notes(res) {
		if strings.HasPrefix(n, "copy-on-write discipline") {
			notes = append(notes, explore.Viol{Oracle: "lockset", Sig: "cow:collections-map-modified-in-place", Msg: n + " after [" + strings.Join(hist, " ") + "]"})
			continue
		}
		notes = append(notes, explore.Viol{Oracle: "lockset", Sig: "lockset:" + strings.SplitN(n, " is accessed", 2)[0], Msg: n + " after [" + strings.Join(hist, " ") + "]"})
	}
	if res.Verdict == "" {
		return notes
	}
	msg := res.Msg
	sig := res.Verdict + ":" + normalise(msg)
	full := fmt.Sprintf("%s: %s after [%s]", res.Verdict, msg, strings.Join(hist, " "))
	if res.Stack != "" {
		full += "\n" + trimStack(res.Stack)
	}
	return append(notes, explore.Viol{Oracle: strings.ToLower(res.Verdict), Sig: sig, Msg: full})
}

// normalise strips addresses and numbers that vary between runs from a panic
// or deadlock message so that it can serve as a signature.
func normalise(s string) string {
	if i := strings.IndexByte(s, '\n'); i >= 0 {
		s = s[:i]
	}
	var sb strings.Builder
	for i := 0; i < len(s); i++ {
		ch := s[i]
		if ch == '0' && i+1 < len(s) && s[i+1] == 'x' {
			sb.WriteString("PTR")
			i += 2
			for i < len(s) && strings.IndexByte("0123456789abcdef", s[i]) >= 0 {
				i++
			}
			i--
			continue
		}
		sb.WriteByte(ch)
	}
	out := sb.String()
	if len(out) > 80 {
		out = out[:80]
	}
	return out
}

func trimStack(s string) string {
	lines := strings.Split(s, "\n")
	var keep []string
	for _, l := range lines {
		if (strings.Contains(l, "gkvlite") || strings.Contains(l, "gkvverif") || strings.Contains(l, "/repo/") || strings.Contains(l, "/verif/")) && !strings.Contains(l, "zzverif") {
			keep = append(keep, strings.TrimSpace(l))
		}
		if len(keep) >= 24 {
			break
		}
	}
	return strings.Join(keep, "\n")
}

// Exec builds the explore.Exec of a sequential profile.
func (sp *SeqProfile) Exec() explore.Exec {
	return func(c *explore.Chooser) *explore.Outcome {
		var w *harness.World
		var stateHash uint64
		res := harness.RunExec(c, false, sp.StepLimit, func() {
			if sp.MapOrders {
				// the choice is consumed on the pristine build too (same choice sequence)
				harness.SetMapOrderDesc(harness.Choose(2, harness.ClassOp) == 1)
			}
			w = harness.NewWorld(sp.Mon, sp.CBMask, sp.Keys, sp.NoFile)
			if sp.Init != nil {
				sp.Init(w)
			}
			for step := 0; step < sp.Depth && w.OnlySwallowed(); step++ {
				ls := sp.Letters(w)
				k := harness.Choose(len(ls)+1, harness.ClassOp)
				if k == 0 {
					break
				}
				l := ls[k-1]
				w.Hist = append(w.Hist, l.Name)
				l.Do(w)
			}
			stateHash = w.StateHash()
			if w.OnlySwallowed() { // (no violation, or only calls that hid a file failure: C07 is told, the others judge the consequences)
				if sp.Finish != nil {
					sp.Finish(w)
				} else {
					StandardFinish(w)
				}
			}
		})
		out := &explore.Outcome{StateHash: stateHash}
		if w != nil {
			for _, v := range w.Viols {
				out.Viols = append(out.Viols, explore.Viol{Oracle: v.Oracle, Sig: v.Sig, Msg: v.Msg})
			}
			out.Transitions = w.Trans
			out.Sample = strings.Join(w.Hist, " ")
			out.Log = strings.Join(w.Log, "\n")
			out.ObsHash = harness.HashString(out.Log)
			out.NonTrivial = len(w.Hist) >= 2
			out.Viols = append(out.Viols, verdictViol(res, w.Hist)...)
		} else {
			out.Viols = append(out.Viols, verdictViol(res, nil)...)
		}
		return out
	}
}

func (sp *SeqProfile) Profile(rule string) Profile {
	return Profile{Name: sp.Name, Exec: sp.Exec(), Rule: rule}
}

// OnlyOracles wraps an Exec so that only violations of the named oracles (plus
// panics, deadlocks, leaks and hangs) are kept: used when a profile of one
// property is reused as a driver for another property's monitor.
func OnlyOracles(e explore.Exec, oracles ...string) explore.Exec {
	keep := map[string]bool{"panic": true, "deadlock": true, "leak": true, "hang": true}
	for _, o := range oracles {
		keep[o] = true
	}
	return func(c *explore.Chooser) *explore.Outcome {
		out := e(c)
		var vs []explore.Viol
		for _, v := range out.Viols {
			if keep[v.Oracle] {
				vs = append(vs, v)
			}
		}
		out.Viols = vs
		return out
	}
}

// OnlySigs keeps only violations whose signature contains one of the substrings
// (plus panics, deadlocks, leaks and hangs).
func OnlySigs(e explore.Exec, subs ...string) explore.Exec {
	return func(c *explore.Chooser) *explore.Outcome {
		out := e(c)
		var vs []explore.Viol
		for _, v := range out.Viols {
			keep := v.Oracle == "panic" || v.Oracle == "deadlock" || v.Oracle == "leak" || v.Oracle == "hang"
			for _, s := range subs {
				if strings.Contains(v.Sig, s) {
					keep = true
				}
			}
			if keep {
				vs = append(vs, v)
			}
		}
		out.Viols = vs
		return out
	}
}

var (
	kA = []byte("a")
	kB = []byte("b")
	kC = []byte("c")
	kD = []byte("d")
)

func bs(s string) []byte { return []byte(s) }

// longKey returns a key of n bytes that starts with prefix and continues with a
// non-periodic byte pattern (a shifted or repeated read of it is a different key).
func longKey(prefix string, n int) []byte {
	k := make([]byte, n)
	copy(k, prefix)
	for i := len(prefix); i < n; i++ {
		k[i] = byte('a' + (i*7+i/13+i*i/31)%26)
	}
	return k
}
