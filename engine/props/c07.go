package props

import (
	"fmt"

	"gkvverif/explore"
	"gkvverif/harness"
)

// C07: a failure injected at every individual ReadAt / WriteAt / Stat /
// Truncate call (writes: every torn length), one fault per execution (two in
// the thorough tier on a reduced alphabet).

var (
	k7b  = bs("b")
	k7c  = bs("c")
	k7e  = bs("e")
	k7cc = bs("cc")
)

func c07Init(w *harness.World) {
	v := harness.Choose(8, harness.ClassOp)
	w.Hist = append(w.Hist, fmt.Sprintf("init%d", v))
	w.SetCollection("x", "nil")
	three := func() {
		w.SetItem("x", k7b, 2, bs("vb"))
		w.SetItem("x", k7c, 3, bs("vc"))
		w.SetItem("x", k7e, 1, bs(""))
	}
	switch v {
	case 0: // nothing durable
	case 1: // flushed once, re-opened: everything must be loaded from the file
		three()
		w.Flush()
		w.Reopen(true)
	case 2: // two root records, tree cached
		three()
		w.Flush()
		w.SetItem("x", k7c, 1, bs("vc2"))
		w.Delete("x", k7e)
		w.Flush()
	case 3: // a deeper tree, re-opened (partial rebuilds in union/split/join)
		for i, k := range []string{"d", "b", "f", "a", "c", "e", "g"} {
			w.SetItem("x", bs(k), int32(100-10*i), bs("v"+k))
		}
		w.Flush()
		w.Reopen(true)
	case 4: // durable state plus unflushed changes
		three()
		w.Flush()
		w.SetItem("x", bs("f"), 5, bs("vf"))
		w.Evict("x")
	case 6: // a 15-item tree of four full levels, re-opened: b sits at depth 2 and has two children
		for i, k := range []string{"h", "d", "l", "b", "f", "j", "n", "a", "c", "e", "g", "i", "k", "m", "o"} {
			w.SetItem("x", bs(k), int32(200-10*i), bs("v"+k))
		}
		w.Flush()
		w.Reopen(true)
	case 7: // nothing durable, a 7-item tree none of which is written yet: every inner node has two dirty children
		for i, k := range []string{"d", "b", "f", "a", "c", "e", "g"} {
			w.SetItem("x", bs(k), int32(100-10*i), bs("v"+k))
		}
	case 5: // two collections, both with unflushed changes (x is written before y)
		three()
		w.SetCollection("y", "nil")
		w.SetItem("y", bs("a"), 1, bs("ya"))
		w.Flush()
		w.SetItem("x", k7b, 2, bs("vb2"))
		w.SetItem("y", bs("d"), 2, bs("yd"))
	}
	w.File.FaultMode = 1
}

type c07Letter struct {
	Letter
	needX bool
}

func c07Letters(w *harness.World) []Letter {
	if w.Closed || w.NeedReopen {
		return nil // after a failed open / failed FlushRevert only the suffix runs
	}
	var ls []Letter
	if _, ok := w.Colls["x"]; ok {
		ls = append(ls,
			Letter{"Get(c)", func(w *harness.World) { w.Get("x", k7c) }},
			Letter{"GetItem(e,-)", func(w *harness.World) { w.GetItem("x", k7e, false) }},
			Letter{"Min(v)", func(w *harness.World) { w.MinMax("x", false, true) }},
			Letter{"Totals", func(w *harness.World) { w.Totals("x") }},
			Letter{"Asc(v)", func(w *harness.World) { w.Visit("x", harness.APIAscend, []byte{}, true, -1) }},
			Letter{"Iter(-)", func(w *harness.World) { w.Visit("x", harness.APIIterDescend, bs("zz"), false, -1) }},
			Letter{"Len", func(w *harness.World) { w.LenOp("x") }},
			Letter{"Exist(b)", func(w *harness.World) { w.Exist("x", k7b) }},
			Letter{"Set(c,9)", func(w *harness.World) { w.SetItem("x", k7c, 9, bs("new")) }},
			Letter{"Set(cc,55)", func(w *harness.World) { w.SetItem("x", k7cc, 55, bs("vcc")) }},
			Letter{"Del(b)", func(w *harness.World) { w.Delete("x", k7b) }},
			Letter{"Del(a)", func(w *harness.World) { w.Delete("x", bs("a")) }},
			Letter{"Evict", func(w *harness.World) { w.Evict("x") }})
	}
	ls = append(ls,
		Letter{"Flush", func(w *harness.World) { w.Flush() }},
		Letter{"CopyTo(0)", func(w *harness.World) { w.CopyTo(-1, 0) }},
		Letter{"CopyTo(1)", func(w *harness.World) { w.CopyTo(-1, 1) }},
		Letter{"Revert", func(w *harness.World) { w.Revert() }},
		Letter{"Reopen", func(w *harness.World) { w.Reopen(true) }})
	return ls
}

func c07Exec(depth int, maxFaults int, tornAll bool) explore.Exec {
	return c07ExecMon(depth, maxFaults, tornAll, harness.Monitors{Append: true})
}

// c07ExecMon: the same driver with other monitors switched on (format decoder,
// reference counting) for the properties that reuse it.
func c07ExecMon(depth int, maxFaults int, tornAll bool, mon harness.Monitors) explore.Exec {
	sp := &SeqProfile{Name: "faults", Keys: [][]byte{k7b, k7c, k7e, k7cc, bs("a"), bs("d"), bs("f"), bs("g"), bs("h")}, Depth: depth,
		Mon: mon}
	sp.Init = func(w *harness.World) {
		c07Init(w)
		w.File.TornAll = tornAll
		w.DstFault = func(dst *harness.MemFile) {
			if w.File.FaultMode == 1 {
				dst.FaultMode = 1
				dst.TornAll = tornAll
			}
		}
	}
	sp.Letters = func(w *harness.World) []Letter {
		ls := c07Letters(w)
		// a call during which a fault fired is retried at once (the fault has
		// cleared); after the last allowed fault injection is switched off
		out := make([]Letter, len(ls))
		for i, l := range ls {
			l := l
			out[i] = Letter{l.Name, func(w *harness.World) {
				for try := 0; try <= maxFaults; try++ {
					n := len(w.FaultOps)
					l.Do(w)
					if len(w.FaultOps) == n {
						return
					}
					if len(w.FaultOps) >= maxFaults {
						w.File.FaultMode = 0
					}
					if w.NeedReopen || w.OpenFailed || len(w.Viols) > 0 {
						return // (a call that swallowed the failure reported success: nothing to retry)
					}
					// both continuations are explored: retry the failed call, or go on without it
					if harness.Choose(2, harness.ClassOp) == 1 {
						w.Hist = append(w.Hist, "(no retry)")
						return
					}
					w.Hist = append(w.Hist, "retry")
				}
			}}
		}
		return out
	}
	sp.Finish = func(w *harness.World) {
		w.File.FaultMode = 0
		w.Hist = append(w.Hist, "|suffix:")
		switch {
		case w.NeedReopen:
			w.Hist = append(w.Hist, "ReopenAfterFailedRevert")
			w.ReopenAfterFailedRevert()
		case w.OpenFailed:
			w.Hist = append(w.Hist, "RetryOpen")
			w.Reopen(false)
		}
		if w.Closed || !w.OnlySwallowed() {
			return
		}
		if _, ok := w.Colls["x"]; !ok {
			w.SetCollection("x", "nil")
		}
		w.SetItem("x", bs("h"), 45, bs("vh"))
		w.Flush()
		w.ObserveAll()
		if mon.Invariant {
			w.CheckInvariants()
		}
		w.CheckDurable()
		w.Reopen(true)
		w.ObserveAll()
		if mon.Invariant {
			w.CheckInvariants()
		}
		if mon.RefCount {
			// never negative, never used after release.  A zero balance after
			// Close is NOT demanded here: no property covers references held by
			// the garbage of a call that failed (C15 quantifies over fault-free
			// histories), and the unchanged tree does leave such references.
			w.CheckRefLive()
		}
	}
	base := sp.Exec()
	return func(c *explore.Chooser) *explore.Outcome {
		out := base(c)
		// only executions in which a fault fired (plus the fault-free base run) are cases
		out.NonTrivial = c.HasClass(explore.ClassFault)
		return out
	}
}

func c07Profiles(tier string) []Profile {
	sparse := "writes failing outright and after 0, 1, n/2, n-1 bytes applied"
	rule := func(d int, torn string, rnd string) string {
		return fmt.Sprintf("8 initial stores (empty; 3 items flushed and re-opened; two root records with the tree cached; a 7-item tree flushed and re-opened; durable state plus unflushed changes; two collections with unflushed changes in both; a 15-item tree of four full levels flushed and re-opened; a 7-item tree with nothing written yet, so that a Flush writes inner nodes with two dirty children) x every history of length <= %d over Get/GetItem/Min/Totals/visit/iterator/Len/Exist/Set (overwrite and new key)/Delete (a key near the root, a key at depth 2 of the 7-item tree)/Evict/Flush/CopyTo(flushEvery 0,1; faults on the source and, separately, on the destination file)/FlushRevert/Reopen x one failing file call at every ReadAt/WriteAt/Stat/Truncate index, %s; eviction walks follow %s; the failed call is either retried at once or not retried (both explored) and the history continues fault-free; then a fixed suffix runs (re-open after a failed open/FlushRevert; Set; Flush; full read battery; copy of the file re-opened; Reopen; full read battery). Oracles: the failing call returns an error and no data, nothing panics or hangs, contents equal the model unchanged by the failed call, the file re-opens to a durable state of the model, the retried call and everything after behave per model", d, torn, rnd)
	}
	if tier != "thorough" {
		return []Profile{{Name: "single", Exec: c07Exec(2, 1, false), Budget: map[int]int{explore.ClassFault: 1, explore.ClassRand: 0}, ShardLevel: 3,
			Rule: rule(2, sparse, "the default random branch")}}
	}
	return []Profile{
		{Name: "single", Exec: c07Exec(2, 1, true), Budget: map[int]int{explore.ClassFault: 1, explore.ClassRand: 1}, ShardLevel: 3,
			Rule: rule(2, "writes failing outright and after every partial length 0..n-1", "the default random branch and every single deviation from it")},
		{Name: "deep", Exec: c07Exec(3, 1, false), Budget: map[int]int{explore.ClassFault: 1, explore.ClassRand: 0}, ShardLevel: 3,
			Rule: rule(3, sparse, "the default random branch")},
		{Name: "double", Exec: c07Exec(1, 2, false), Budget: map[int]int{explore.ClassFault: 2, explore.ClassRand: 0}, ShardLevel: 3,
			Rule: "same initial stores x every single operation x every pair of failing file calls (the second fault anywhere after the first, including inside the retry)"},
	}
}

func init() {
	register(&Spec{ID: "C07", Level: "fault_enumeration", Profiles: c07Profiles})
}
