package props

import (
	"fmt"

	"gkvverif/harness"
)

func c12Profiles(tier string) []Profile {
	d := 5
	if tier == "thorough" {
		d = 6
	}
	p := &SeqProfile{Name: "collections", Keys: [][]byte{kA, kB}, Depth: d, MapOrders: true,
		Mon: harness.Monitors{Durable: true},
		Letters: func(w *harness.World) []Letter {
			var ls []Letter
			for _, n := range []string{"x", yName} {
				n := n
				mc := w.M.Cur.Colls[n]
				// a comparator that changes the order may only be installed while
				// the collection holds <= 1 item (where all orders coincide)
				small := mc == nil || len(mc.Items) <= 1
				isRev := mc != nil && mc.Cmp == "rev"
				if small || !isRev {
					ls = append(ls, Letter{fmt.Sprintf("SetColl(%.1s,nil)", n), func(w *harness.World) { w.SetCollection(n, "nil") }})
				}
				if n == "x" {
					if small || !isRev {
						ls = append(ls, Letter{fmt.Sprintf("SetColl(%.1s,wrap)", n), func(w *harness.World) { w.SetCollection(n, "wrap") }})
					}
					if small || isRev {
						ls = append(ls, Letter{fmt.Sprintf("SetColl(%.1s,rev)", n), func(w *harness.World) { w.SetCollection(n, "rev") }})
					}
				}
				ls = append(ls, Letter{fmt.Sprintf("RemoveColl(%.1s)", n), func(w *harness.World) { w.RemoveCollection(n) }})
				if mc != nil {
					ls = append(ls,
						Letter{fmt.Sprintf("Set(%.1s.a,1)", n), func(w *harness.World) { w.SetItem(n, kA, 1, bs("v"+n[:1])) }},
						Letter{fmt.Sprintf("Set(%.1s.b,2)", n), func(w *harness.World) { w.SetItem(n, kB, 2, bs("w")) }},
						Letter{fmt.Sprintf("Del(%.1s.a)", n), func(w *harness.World) { w.Delete(n, kA) }})
				}
			}
			ls = append(ls, Letter{"Flush", func(w *harness.World) { w.Flush() }},
				Letter{"Reopen", func(w *harness.World) { w.Reopen(true) }})
			return append(ls, snapLetters(w, 1, false)...)
		}}
	faulted := Profile{Name: "after-failed-flush", Exec: OnlyOracles(c07Exec(1, 1, false), "durable", "observe", "model"),
		Budget: map[int]int{1: 0, 2: 0, 3: 1}, ShardLevel: 3,
		Rule: "collections when a file call fails: the C07 driver (8 initial stores x every single operation x one failing file call at every index, retried or not; a call that reports success is taken at its word) followed by Set, Flush, the full read battery, a copy of the file re-opened, Reopen and the battery again; contents oracles only: among the initial stores is one with two collections that both hold unflushed changes - a failure while one collection is written must not be forgotten because another one was written successfully"}
	var conc []Profile
	for _, sc := range c05More() {
		if sc.Name == "S15-flush-vs-setcollection" {
			conc = append(conc, sc.Profile(2))
		}
	}
	return append(conc, faulted, p.Profile(fmt.Sprintf("every history of length <= %d over SetCollection(x|y) with nil / an order-equivalent wrapper / (while <= 1 item) the reverse comparator, on new and on existing names, RemoveCollection of present and absent names, Set/Delete through the handle currently registered, Flush, Reopen, one snapshot; oracles: sorted names, new name empty, existing name keeps items, remove+create empty, other collections and the snapshot untouched, a copy of the file re-opens to the names and contents of the last Flush only", d)))
}

func init() {
	register(&Spec{ID: "C12", Level: "model_checking", Profiles: c12Profiles})
}
