package props

import (
	"fmt"
	"strings"

	"gkvverif/explore"
	"gkvverif/harness"
)

// C03: every prefix of the ordered write sequence of a history, with every
// byte-granular truncation of the write in flight, must recover to the last
// Flush all of whose writes completed.

func c03Exec(depth int, adversarial bool, junk bool, allCuts bool, postAll bool) explore.Exec {
	return c03ExecPre(depth, adversarial, junk, allCuts, postAll, nil)
}

// c03ExecPre: pre runs a fixed prefix (using flush for Flush) before the free letters.
func c03ExecPre(depth int, adversarial bool, junk bool, allCuts bool, postAll bool, pre func(w *harness.World, flush func(w *harness.World)), cbMask ...int) explore.Exec {
	var marks []harness.FlushMark
	flush := func(w *harness.World) {
		n := len(w.M.Flushed)
		w.Flush()
		if len(w.M.Flushed) > n {
			marks = append(marks, harness.FlushMark{Writes: len(w.File.WLog), State: w.M.Durable().Clone()})
		}
	}
	images := 0
	mask := 0
	if len(cbMask) > 0 {
		mask = cbMask[0]
	}
	sp := &SeqProfile{Name: "crash", Keys: [][]byte{kA, kB}, Depth: depth, CBMask: mask,
		Init: func(w *harness.World) {
			marks = nil
			images = 0
			w.File.KeepWrites = true
			w.SetCollection("x", "nil")
			if pre != nil {
				pre(w, flush)
			}
		},
		Letters: func(w *harness.World) []Letter {
			var ls []Letter
			if _, ok := w.Colls["x"]; ok {
				ls = append(ls,
					Letter{"Set(a,1)", func(w *harness.World) { w.SetItem("x", kA, 1, bs("va")) }},
					Letter{"Set(b,2)", func(w *harness.World) { w.SetItem("x", kB, 2, bs("")) }},
					Letter{"Set(a,3)", func(w *harness.World) { w.SetItem("x", kA, 3, bs("va3")) }},
					Letter{"Del(a)", func(w *harness.World) { w.Delete("x", kA) }})
				if adversarial {
					av := harness.AdversarialValues(w.File.Data)
					for i := range av {
						i := i
						ls = append(ls, Letter{fmt.Sprintf("Set(b,adv%d)", i), func(w *harness.World) {
							v := harness.AdversarialValues(w.File.Data)
							if i < len(v) {
								w.SetItem("x", kB, 2, v[i])
							}
						}})
					}
				}
			}
			if _, ok := w.Colls["y"]; ok {
				ls = append(ls, Letter{"Set(y.a)", func(w *harness.World) { w.SetItem("y", kA, 1, bs("ya")) }},
					Letter{"RemoveColl(y)", func(w *harness.World) { w.RemoveCollection("y") }})
			} else {
				ls = append(ls, Letter{"SetColl(y)", func(w *harness.World) { w.SetCollection("y", "nil") }})
			}
			ls = append(ls, Letter{"Flush", flush},
				Letter{"Reopen", func(w *harness.World) { w.Reopen(true); ensureX(w) }})
			return ls
		},
		Finish: func(w *harness.World) {
			// a final Flush so that the last mutations are part of the write sequence too
			w.Hist = append(w.Hist, "Flush")
			flush(w)
			if len(w.Viols) > 0 {
				return
			}
			images = w.CrashSweep(marks, junk, allCuts, postAll)
		}}
	base := sp.Exec()
	return func(c *explore.Chooser) *explore.Outcome {
		out := base(c)
		out.Extra = map[string]int64{"crash_images": int64(images)}
		if out.Log != "" {
			out.Log += fmt.Sprintf("\ncrash images checked: %d", images)
		}
		out.Transitions += images
		out.ObsHash = harness.HashString(out.Sample)
		out.NonTrivial = strings.Contains(out.Sample, "Set")
		return out
	}
}

func c03Profiles(tier string) []Profile {
	d, dj := 3, 2
	if tier == "thorough" {
		d, dj = 4, 3
	}
	thorough := tier == "thorough"
	var conc []Profile
	for _, sc := range append(c05Scenarios(), c05More()...) {
		if sc.Name == "S8-flushes" || sc.Name == "S4-flush" {
			conc = append(conc, sc.Profile(1))
		}
	}
	return append(conc, []Profile{
		{Name: "crash", Exec: c03Exec(d, true, false, true, thorough),
			Rule: fmt.Sprintf("every history of length <= %d (plus a final Flush) over Set/Delete on x, Set on y, SetCollection/RemoveCollection(y), Flush, Reopen, and Set of adversarial values (MagicEnd x2; MagicBeg x2; a root trailer with offset 0; the leading half of a root record; the trailer of, and a byte-exact copy of, the genuine previous root record) x every prefix of the ordered file writes x every byte-granular truncation of the write in flight; each crash image is opened with NewStore and must equal, through the whole read API, the model state of the most recent Flush whose writes all lie inside the image (empty store or the documented 'no roots' error if none); an independent decoder must agree on which root record is the last complete one; the recovered store then takes a Set and a Flush whose result must be durable (quick: at write boundaries and 4 cuts per write; thorough: every image)", d)},
		{Name: "stale", Exec: c03ExecPre(2, true, false, true, false, func(w *harness.World, flush func(w *harness.World)) {
			w.Hist = append(w.Hist, "Flush Set(a,1) Flush |")
			flush(w)
			w.SetItem("x", kA, 1, bs("va"))
			flush(w)
		}), Rule: "fixed prefix [Flush, Set(a,1), Flush] (two complete root records) then every history of length <= 2 over the same alphabet, whose adversarial values now include the trailer and a byte-exact copy of each of the OLDER root records: a fragment that merely points at an older record must not resurrect it; every write prefix x every byte cut"},
		{Name: "longtail", Exec: c03ExecPre(0, false, false, true, false, func(w *harness.World, flush func(w *harness.World)) {
			w.Hist = append(w.Hist, "Set(a,1) Flush Set(b,9000 bytes)")
			w.SetItem("x", kA, 1, bs("va"))
			flush(w)
			big := make([]byte, 9000)
			for i := range big {
				big[i] = byte('A' + i%23)
			}
			w.SetItem("x", kB, 2, big)
		}), Rule: "one history [Set(a) Flush Set(b, 9000-byte value) Flush] x every one of the ~9200 byte-granular crash points: every length 0..9100 of uncommitted bytes after the last complete root record (a backward scan that proceeds in chunks of any size up to 8 KiB meets every alignment of the end marker)"},
		{Name: "crash-framed", Exec: c03ExecPre(d-1, false, false, true, false, nil, harness.CBFramed),
			Rule: fmt.Sprintf("the crash profile (histories of length <= %d, every byte-granular crash point) with a BeforeItemWrite / AfterItemRead pair installed that stores every value with a two-byte trailer (length, checksum) and verifies and strips it on read - the documented use of the pair (checksums, compression): what is stored differs in length from what is in memory, and recovery must still give the last completed Flush", d-1)},
		{Name: "crash-valframed", Exec: c03ExecPre(d-1, false, false, true, false, nil, harness.CBValFramed),
			Rule: fmt.Sprintf("the crash profile (histories of length <= %d, every byte-granular crash point) with the ItemValLength / ItemValWrite / ItemValRead triple installed (stored value = value + two-byte trailer written by a separate file call): the append position must advance by the stored length, and recovery must still give the last completed Flush", d-1)},
		{Name: "junk", Exec: c03Exec(dj, false, true, false, false),
			Rule: fmt.Sprintf("every history of length <= %d x crash images at write boundaries and cuts {1, n/2, n-1} x every adversarial junk tail and every proper prefix of it appended after the image", dj)},
	}...)
}

func init() {
	register(&Spec{ID: "C03", Level: "fault_enumeration", Profiles: c03Profiles})
}
