package props

import (
	"fmt"

	"gkvverif/harness"
)

func c10Finish(w *harness.World) {
	w.CheckRecycleDirect()
	if w.Aux != nil {
		w.Aux.CheckRecycleDirect()
	}
	w.Churn()
	w.DrainIters()
	w.ObserveAll()
	if w.Aux != nil {
		w.Aux.ObserveAll()
		w.Viols = append(w.Viols, w.Aux.Viols...)
		w.Log = append(w.Log, w.Aux.Log...)
	}
}

// readersProfile: up to two readers paused inside their visits (iterators that
// have delivered part of their range) while the single mutator goes on; every
// order of acquiring and releasing the pinned versions.
func readersProfile(depth int) *SeqProfile {
	return &SeqProfile{Name: "readers", Keys: [][]byte{kA, kB, kC, kD}, Depth: depth, Finish: c10Finish,
		Mon: harness.Monitors{Recycle: true},
		Init: func(w *harness.World) {
			w.SetCollection("x", "nil")
			w.SetItem("x", kA, 2, bs("a0"))
			w.SetItem("x", kB, 3, bs("b0"))
			w.SetItem("x", kC, 1, bs("c0"))
		},
		Letters: func(w *harness.World) []Letter {
			ls := []Letter{
				{"Set(a)", func(w *harness.World) { w.SetItem("x", kA, 2, bs("a1")) }},
				{"Set(c)", func(w *harness.World) { w.SetItem("x", kC, 1, bs("c1")) }},
				{"Set(d)", func(w *harness.World) { w.SetItem("x", kD, 4, bs("d1")) }},
				{"Del(b)", func(w *harness.World) { w.Delete("x", kB) }},
			}
			open := 0
			for i, it := range w.Iters {
				if !it.Closed {
					open++
					i := i
					ls = append(ls, Letter{fmt.Sprintf("IterNext(i%d)", i), func(w *harness.World) { w.IterNext(i) }},
						Letter{fmt.Sprintf("IterClose(i%d)", i), func(w *harness.World) { w.IterClose(i) }})
				}
			}
			if open < 2 {
				ls = append(ls, Letter{"IterOpen", func(w *harness.World) { w.IterOpen("x") }})
			}
			return ls
		}}
}

func readersRule(depth int) string {
	return fmt.Sprintf("3-item collection, every history of length <= %d over Set (overwrite a, c; new key d), Delete(b) by the mutator and IterOpen / IterNext / IterClose of up to two iterators that stay paused inside their visits across the mutations (readers pinned on different versions, released in every order); oracles: no freed node reachable from an open handle, and after forced reuse of everything freed each paused reader still delivers exactly the version it pinned and the collection equals the model", depth)
}

func c10Profiles(tier string) []Profile {
	d := 5
	if tier == "thorough" {
		d = 6
	}
	newAux := func(w *harness.World) {
		w.Aux = harness.NewWorld(harness.Monitors{}, 0, [][]byte{kA, kB}, true)
		w.Aux.SetCollection("x", "nil")
	}
	p := &SeqProfile{Name: "recycle", Keys: [][]byte{kA, kB, kC}, Depth: d, Finish: c10Finish,
		Mon: harness.Monitors{Recycle: true},
		Init: func(w *harness.World) {
			w.SetCollection("x", "nil")
			w.SetCollection("y", "nil")
			newAux(w)
		},
		Letters: func(w *harness.World) []Letter {
			var ls []Letter
			if _, ok := w.Colls["x"]; ok {
				ls = append(ls,
					Letter{"Set(A.x.a,1)", func(w *harness.World) { w.SetItem("x", kA, 1, bs("v")) }},
					Letter{"Set(A.x.b,2)", func(w *harness.World) { w.SetItem("x", kB, 2, bs("w")) }},
					Letter{"Set(A.x.c,3)", func(w *harness.World) { w.SetItem("x", kC, 3, bs("u")) }},
					Letter{"Del(A.x.a)", func(w *harness.World) { w.Delete("x", kA) }},
					Letter{"Del(A.x.b)", func(w *harness.World) { w.Delete("x", kB) }},
					Letter{"Evict(A.x)", func(w *harness.World) { w.Evict("x") }},
					Letter{"SetColl(A.x)", func(w *harness.World) { w.SetCollection("x", "nil") }},
					Letter{"Nested{Set(a)}", func(w *harness.World) {
						w.VisitNested("x", "Set(a,4)", func() { w.SetItem("x", kA, 4, bs("n")) })
					}},
					Letter{"Nested{Del(b)}", func(w *harness.World) {
						w.VisitNested("x", "Del(b)", func() { w.Delete("x", kB) })
					}})
				open := 0
				for i, it := range w.Iters {
					if !it.Closed {
						open++
						i := i
						ls = append(ls, Letter{fmt.Sprintf("IterNext(i%d)", i), func(w *harness.World) { w.IterNext(i) }},
							Letter{fmt.Sprintf("IterClose(i%d)", i), func(w *harness.World) { w.IterClose(i) }})
					}
				}
				if open == 0 {
					ls = append(ls, Letter{"IterOpen(A.x)", func(w *harness.World) { w.IterOpen("x") }})
				}
			}
			ls = append(ls,
				Letter{"Flush(A)", func(w *harness.World) { w.Flush() }},
				Letter{"Recreate(A.y)", func(w *harness.World) { w.RemoveCollection("y"); w.SetCollection("y", "nil") }},
				Letter{"Set(A.y.a)", func(w *harness.World) {
					if _, ok := w.Colls["y"]; ok {
						w.SetItem("y", kA, 1, bs("y"))
					}
				}},
				Letter{"Set(B.x.a)", func(w *harness.World) { w.Aux.SetItem("x", kA, 1, bs("B")) }},
				Letter{"Set(B.x.b)", func(w *harness.World) { w.Aux.SetItem("x", kB, 2, bs("B")) }},
				Letter{"Del(B.x.a)", func(w *harness.World) { w.Aux.Delete("x", kA) }},
				Letter{"Renew(B)", func(w *harness.World) { w.Aux.CloseStore(); newAux(w) }})
			return append(ls, snapLetters(w, 1, true)...)
		}}
	dr := 6
	if tier == "thorough" {
		dr = 7
	}
	aborted := Profile{Name: "aborted-mutations", Exec: OnlyOracles(c07Exec(1, 1, false), "observe", "model", "recycle", "durable"),
		Budget: map[int]int{1: 0, 2: 0, 3: 1}, ShardLevel: 3,
		Rule: "recycling after a mutation that was abandoned half-way: the C07 driver (8 initial stores incl. a re-opened 7-item tree x every single operation x one failing file call at every index, retried or not) followed by a mutation, Flush, full read battery, Reopen, full read battery; only the contents oracles are kept"}
	var conc []Profile
	for _, sc := range c05More() {
		if sc.Name == "S12-snapshot-replaced" || sc.Name == "S5-snapshot" || sc.Name == "S11-slow-get" || sc.Name == "S14-snapshot-flush" {
			conc = append(conc, sc.Profile(1))
		}
	}
	for _, sc := range c05Scenarios() {
		if sc.Name == "S1-get" {
			conc = append(conc, sc.Profile(2))
		}
	}
	return append(conc, aborted, readersProfile(dr).Profile(readersRule(dr)), p.Profile(fmt.Sprintf("every history of length <= %d over two stores sharing the process-wide free lists (A: file-backed, collections x,y; B: memory-only): Set/Delete/Evict, Flush, SetCollection on an existing name, remove+recreate, Snapshot/read/revert/close of a snapshot, an iterator left open across letters (Next/Close), mutations nested inside a visitor callback, closing and renewing B; oracles: no node on the free list is reachable from any open handle, and after a churn phase that reuses everything freed, every open handle still equals the model and every open iterator delivers exactly the version it pinned", d)))
}

func init() {
	register(&Spec{ID: "C10", Level: "model_checking", Profiles: c10Profiles})
}
