package props

import (
	"bytes"
	"fmt"
	"strings"

	"github.com/cbehopkins/gkvlite"

	"gkvverif/explore"
	"gkvverif/harness"
)

// bigOffsetExec: the same history is run on a store file whose records start
// right after a seed root record at offset ~0 and on files whose records start
// at offsets around and beyond 2^31 and 2^32 (sparse: the bytes below are a
// hole nothing may touch).  Differential oracle, no expected values written by
// hand: every return value and the complete read battery (lookups, totals,
// ascending visit with values and depths, descending key-only visit, min/max)
// must be the same whatever the base offset, and equal the plain-map model.
func bigOffsetExec(depth int) explore.Exec {
	bases := []int64{46, 1<<31 - 60, 1<<31 + 7, 1<<32 - 90, 1<<32 + 11, 1 << 40}
	keys := [][]byte{bs("a"), bs("bb"), longKey("c", 40), bs("d")}
	type letter struct {
		name string
		do   func(st **gkvlite.Store, f *harness.SparseFile, flushes *int, log *strings.Builder)
	}
	coll := func(st *gkvlite.Store) *gkvlite.Collection {
		if c := st.GetCollection("x"); c != nil {
			return c
		}
		return st.SetCollection("x", nil)
	}
	var letters []letter
	for i, k := range keys {
		k, p := k, int32(4-i)
		letters = append(letters, letter{fmt.Sprintf("Set(%.2s,%d)", k, p), func(st **gkvlite.Store, f *harness.SparseFile, fl *int, log *strings.Builder) {
			err := coll(*st).SetItem(&gkvlite.Item{Key: k, Val: []byte("value-of-" + string(k[:1])), Priority: p})
			fmt.Fprintf(log, "Set=%v;", err)
		}})
	}
	letters = append(letters,
		letter{"Set(bb,9)", func(st **gkvlite.Store, f *harness.SparseFile, fl *int, log *strings.Builder) {
			fmt.Fprintf(log, "Set=%v;", coll(*st).SetItem(&gkvlite.Item{Key: keys[1], Val: []byte("second"), Priority: 9}))
		}},
		letter{"Del(a)", func(st **gkvlite.Store, f *harness.SparseFile, fl *int, log *strings.Builder) {
			ok, err := coll(*st).Delete(keys[0])
			fmt.Fprintf(log, "Del=%v,%v;", ok, err)
		}},
		letter{"Flush", func(st **gkvlite.Store, f *harness.SparseFile, fl *int, log *strings.Builder) {
			err := (*st).Flush()
			if err == nil {
				*fl++
			}
			fmt.Fprintf(log, "Flush=%v;", err)
		}},
		letter{"Evict", func(st **gkvlite.Store, f *harness.SparseFile, fl *int, log *strings.Builder) {
			coll(*st).EvictSomeItems()
		}},
		letter{"Reopen", func(st **gkvlite.Store, f *harness.SparseFile, fl *int, log *strings.Builder) {
			(*st).Close()
			ns, err := gkvlite.NewStore(f)
			fmt.Fprintf(log, "Reopen=%v;", err)
			if err == nil {
				*st = ns
			}
		}},
		letter{"Revert", func(st **gkvlite.Store, f *harness.SparseFile, fl *int, log *strings.Builder) {
			if *fl == 0 {
				return // (never past the seed root record: below it is the hole)
			}
			err := (*st).FlushRevert()
			if err == nil {
				*fl--
			}
			fmt.Fprintf(log, "Revert=%v;", err)
		}})
	battery := func(st *gkvlite.Store, log *strings.Builder) {
		c := st.GetCollection("x")
		if c == nil {
			log.WriteString("no-x;")
			return
		}
		n, b, err := c.GetTotals()
		fmt.Fprintf(log, "tot=%d,%d,%v;", n, b, err)
		for _, k := range append(keys, bs("zz")) {
			v, err := c.Get(k)
			fmt.Fprintf(log, "get(%.2s)=%q,%v;", k, v, err)
		}
		err = c.VisitItemsAscendEx([]byte{}, true, func(it *gkvlite.Item, d uint64) bool {
			fmt.Fprintf(log, "[%.2s/%d %d %q d%d]", it.Key, len(it.Key), it.Priority, it.Val, d)
			return true
		})
		fmt.Fprintf(log, "asc=%v;", err)
		err = c.VisitItemsDescend(bs("c"), false, func(it *gkvlite.Item) bool {
			fmt.Fprintf(log, "[%.2s]", it.Key)
			return true
		})
		fmt.Fprintf(log, "desc=%v;", err)
		mi, e1 := c.MinItem(false)
		ma, e2 := c.MaxItem(true)
		if mi != nil && ma != nil {
			fmt.Fprintf(log, "min=%.2s max=%.2s,%q;", mi.Key, ma.Key, ma.Val)
		}
		fmt.Fprintf(log, "mm=%v,%v;", e1, e2)
	}
	return func(c *explore.Chooser) *explore.Outcome {
		out := &explore.Outcome{}
		var hist []string
		var viols []harness.Viol
		var ref string
		res := harness.RunExec(c, false, 0, func() {
			var word []int
			for i := 0; i < depth; i++ {
				k := harness.Choose(len(letters)+1, harness.ClassOp)
				if k == 0 {
					break
				}
				word = append(word, k-1)
				hist = append(hist, letters[k-1].name)
			}
			for bi, base := range bases {
				harness.Reset()
				f := harness.NewSparseFile(base)
				harness.BeginOp("open")
				st, err := gkvlite.NewStore(f)
				if err != nil {
					viols = append(viols, harness.Viol{Oracle: "offset", Sig: "offset:open", Msg: fmt.Sprintf("file of %d bytes ending in the root record of an empty store: NewStore returned %v", base, err)})
					return
				}
				var log strings.Builder
				flushes := 0
				for _, li := range word {
					harness.BeginOp(letters[li].name)
					letters[li].do(&st, f, &flushes, &log)
				}
				harness.BeginOp("battery")
				battery(st, &log)
				// and once more on a never-loaded store if anything is durable
				if flushes > 0 {
					if s2, err := gkvlite.NewStore(f); err == nil {
						log.WriteString("|reopened:")
						battery(s2, &log)
						s2.Close()
					} else {
						fmt.Fprintf(&log, "|reopen=%v", err)
					}
				}
				st.Close()
				for _, n := range f.Notes {
					viols = append(viols, harness.Viol{Oracle: "offset", Sig: "offset:hole-touched", Msg: fmt.Sprintf("records from offset %d: %s", base, n)})
				}
				if bi == 0 {
					ref = log.String()
					out.Log = ref
				} else if got := log.String(); got != ref {
					viols = append(viols, harness.Viol{Oracle: "offset", Sig: "offset:results-depend-on-file-offset",
						Msg: fmt.Sprintf("the same history gives different results when the store's records start at offset %d instead of 46:\n  at 46: %s\n  at %d: %s", base, diffAround(ref, got), base, diffAround(got, ref))})
					return
				}
			}
		})
		for _, v := range viols {
			out.Viols = append(out.Viols, explore.Viol{Oracle: v.Oracle, Sig: v.Sig, Msg: v.Msg + " after [" + strings.Join(hist, " ") + "]"})
		}
		out.Viols = append(out.Viols, verdictViol(res, hist)...)
		out.Sample = strings.Join(hist, " ")
		out.Transitions = len(hist) * len(bases)
		out.ObsHash = harness.HashString(out.Log)
		out.StateHash = out.ObsHash
		out.NonTrivial = len(hist) >= 2
		return out
	}
}

// diffAround returns the part of a around the first difference with b.
func diffAround(a, b string) string {
	i := 0
	for i < len(a) && i < len(b) && a[i] == b[i] {
		i++
	}
	lo, hi := i-60, i+100
	if lo < 0 {
		lo = 0
	}
	if hi > len(a) {
		hi = len(a)
	}
	return "..." + string(bytes.ToValidUTF8([]byte(a[lo:hi]), []byte("?"))) + "..."
}

func bigOffsetProfile(depth int) Profile {
	return Profile{Name: "bigoffset", Exec: bigOffsetExec(depth), Budget: map[int]int{explore.ClassRand: 0},
		Rule: fmt.Sprintf("every history of length <= %d over Set (4 keys incl. a 40-byte one, an overwrite), Delete, Flush, Evict, Reopen, FlushRevert, run on sparse store files whose records start at offsets 46, 2^31-60 (records straddle 2^31), 2^31+7, 2^32-90, 2^32+11 and 2^40 (the bytes below are a hole that must never be read, written or cut off; the file ends in the root record of an empty store); differential oracle: every return value and the complete read battery (totals, lookups, ascending visit with values and depths, descending key-only visit, min/max; repeated on a freshly re-opened store when something is durable) are identical for all six base offsets", depth)}
}
