package props

import (
	"fmt"
	"gkvverif/explore"

	"gkvverif/harness"
)

var (
	k6b  = bs("b")
	k6dd = longKey("dd", 70) // long and not periodic: must come back from the file byte for byte
	k6f  = bs("f")
)

// c06Faulted: visits after a file call failed (C07 driver, visit oracle only).
func c06Faulted() Profile {
	return Profile{Name: "visits-after-faults", Exec: OnlySigs(c07Exec(1, 1, false), "visit"),
		Budget: map[int]int{1: 0, 2: 0, 3: 1}, ShardLevel: 3,
		Rule: "range visits after a failed file call: the C07 driver (8 initial stores x every single operation x one failing file call at every index, retried or not) followed by Set, Flush, the full read battery (ascending / descending visits with and without values, iterators), Reopen and the battery again; visit oracle only: every visit delivers exactly the model's range in order with the right values"}
}

func c06Profiles(tier string) []Profile {
	prios := []int32{1, 2}
	depth := 3
	if tier == "thorough" {
		prios = []int32{1, 2, 3}
	}
	keys := [][]byte{k6b, k6dd, k6f}
	targets := [][]byte{nil, {}, bs("a"), bs("b"), bs("c"), bs("d"), k6dd, append(append([]byte{}, k6dd...), 'x'), bs("e"), bs("f"), bs("g")}
	cmps := []string{"nil", "rev", "len"}
	var pool bool
	mk := func(cmp string) *SeqProfile {
		pool := pool
		other := map[string]string{"nil": "rev", "rev": "nil", "len": "rev"}[cmp]
		return &SeqProfile{Name: "range-" + cmp, Keys: keys, Depth: depth, MapOrders: true,
			Init: func(w *harness.World) {
				w.SetCollection("x", cmp)
				// a neighbour collection under a different comparator: every way of
				// re-loading the roots must keep the two orders apart
				w.SetCollection("w", other)
				w.SetItem("w", bs("m"), 1, bs("wm"))
				w.SetItem("w", bs("n"), 2, bs("wn"))
			},
			Finish: func(w *harness.World) {
				// cache state
				cs := harness.Choose(6, harness.ClassOp)
				csName := []string{"dirty", "flushed", "flushed+evict", "reopened", "reopened+GetItem(v)", "reopened+visit(-)"}[cs]
				switch cs {
				case 1:
					w.Flush()
				case 2:
					w.Flush()
					w.Evict("x")
					w.Evict("x")
				case 3:
					w.Flush()
					w.Reopen(true)
				case 4:
					w.Flush()
					w.Reopen(true)
					if _, ok := w.Colls["x"]; ok {
						w.GetItem("x", keys[harness.Choose(3, harness.ClassOp)], true)
					}
				case 5:
					w.Flush()
					w.Reopen(true)
					if _, ok := w.Colls["x"]; ok {
						w.Visit("x", harness.APIDescend, bs("e"), false, -1)
					}
				}
				if _, ok := w.Colls["x"]; !ok {
					return
				}
				api := harness.Choose(6, harness.ClassOp)
				target := targets[harness.Choose(len(targets), harness.ClassOp)]
				wv := harness.Choose(2, harness.ClassOp) == 1
				n := len(w.M.Cur.Colls["x"].Items)
				w.Hist = append(w.Hist, fmt.Sprintf("[%s] api=%d target=%.4q withValue=%v", csName, api, target, wv))
				w.Visit("x", api, target, wv, -1)
				for stop := 0; stop <= n && !pool; stop++ {
					w.Visit("x", api, target, wv, stop)
				}
				w.CheckVisitDepths()
				if pool {
					// under the recycling pool: the visitor (as CopyTo's does) evicts at
					// its first callback while the frames of the ancestors wait; what
					// they deliver afterwards must be live items of the pinned version
					same := w.M.Cur.Colls["x"].Clone()
					w.VisitMutating("x", api, target, wv, same, func() {
						w.Evict("x")
						w.Evict("x")
					})
				}
				// the same visit once more with a visitor that, as the mutating
				// goroutine, inserts and deletes at its first callback: the visit must
				// still deliver the range of the version it started on
				pinned := w.M.Cur.Colls["x"].Clone()
				w.VisitMutating("x", api, target, wv, pinned, func() {
					w.SetItem("x", bs("c"), 9, bs("new"))
					if n > 0 {
						w.Delete("x", pinned.SortedKeys()[n/2])
					}
				})
				w.ObserveAll()
			},
			Letters: func(w *harness.World) []Letter {
				var ls []Letter
				for _, k := range keys {
					for _, p := range prios {
						k, p := k, p
						ls = append(ls, Letter{fmt.Sprintf("Set(%.2s,%d)", k, p), func(w *harness.World) { w.SetItem("x", k, p, bs("v-"+string(k[:1]))) }})
					}
				}
				return ls
			}}
	}
	var ps []Profile
	// the same range visits beside another reader (lazy loading and in-visit
	// eviction of the two visits interfere)
	for _, sc := range c05More() {
		if sc.Name == "S9-value-vs-keyonly" {
			ps = append(ps, sc.Profile(2))
		}
	}
	for _, c := range cmps {
		ps = append(ps, mk(c).Profile(fmt.Sprintf("comparator %s: contents = every Set sequence of length <= %d over keys {b, dd+68 non-periodic bytes, f} x priorities %v (every subset, insertion order, priority order incl. ties and overwrites) x cache state in {dirty, flushed, flushed+evicted (every random path), reopened, reopened+GetItem with value of each key, reopened+partial key-only visit} x API in {Ascend, Descend, AscendEx, DescendEx, IterateAscend, IterateDescend} x target in {nil, \"\", a, b, c, d, the long key, the long key+x, e, f, g} x withValue x visitor stop position in {never, 0..n}; oracle: delivered sequence = model range under that comparator truncated at the stop, key/priority/value exact, Ex depth = true depth from the side-effect-free walk", c, depth, prios)))
	}
	pool = true
	pp := mk("nil")
	pp.Name, pp.CBMask = "range-pool", harness.CBItemAlloc|harness.CBAddRef|harness.CBDecRef
	ppp := pp.Profile(fmt.Sprintf("the default-comparator product (Set sequences of length <= %d x 6 cache states x 6 APIs x 11 targets x withValue, complete visits) on a store whose ItemAlloc / ItemAddRef / ItemDecRef callbacks form a recycling pool (released items are scrubbed), plus the same visit with a visitor that calls EvictSomeItems twice at its first callback: every item delivered must be a live item of the pinned version; eviction walks follow the default random branch and every single deviation from it", depth))
	ppp.Budget = map[int]int{explore.ClassRand: 1}
	ps = append(ps, ppp)
	bd := 3
	if tier == "thorough" {
		bd = 4
	}
	ps = append(ps, bigOffsetProfile(bd))
	return append(ps, c06Faulted())
}

func init() {
	register(&Spec{ID: "C06", Level: "model_checking", Profiles: c06Profiles})
}
