package props

import (
	"fmt"
	"strings"

	"gkvverif/harness"
)

// shapesProfile: every treap shape over n keys (every ranking of n distinct
// priorities - with distinct priorities the shape does not depend on the
// insertion order) in one of three cache states, followed by every history of
// length <= depth over Delete of each key, overwrites of each key with the
// lowest / the highest priority and a value of another length, Flush, Evict,
// Reopen.  Deleting an inner node of every shape exercises join() on every
// pair of subtree shapes; the overwrites exercise union()/split() likewise.
func shapesProfile(name string, n, depth int, mon harness.Monitors, finish func(w *harness.World)) *SeqProfile {
	var keys [][]byte
	for i := 0; i < n; i++ {
		keys = append(keys, []byte{byte('a' + i)})
	}
	val := func(k []byte, p int32) []byte { return bs(strings.Repeat("v", int(p)) + string(k)) }
	nperm := 1
	for i := 2; i <= n; i++ {
		nperm *= i
	}
	return &SeqProfile{Name: name, Keys: keys, Depth: depth, Mon: mon, Finish: finish,
		Init: func(w *harness.World) {
			// k-th permutation of the priorities 1..n (factorial number system)
			k := harness.Choose(nperm, harness.ClassOp)
			pool := make([]int32, n)
			for i := range pool {
				pool[i] = int32(i + 1)
			}
			var prios []int32
			for i := n; i >= 1; i-- {
				f := 1
				for j := 2; j < i; j++ {
					f *= j
				}
				idx := k / f
				k %= f
				prios = append(prios, pool[idx])
				pool = append(pool[:idx], pool[idx+1:]...)
			}
			cache := harness.Choose(3, harness.ClassOp)
			w.Hist = append(w.Hist, fmt.Sprintf("prios%v/%s", prios, []string{"dirty", "flushed", "reopened"}[cache]))
			w.SetCollection("x", "nil")
			for i, key := range keys {
				w.SetItem("x", key, prios[i], val(key, prios[i]))
			}
			switch cache {
			case 1:
				w.Flush()
			case 2:
				w.Flush()
				w.Reopen(true)
			}
		},
		Letters: func(w *harness.World) []Letter {
			var ls []Letter
			if _, ok := w.Colls["x"]; !ok {
				return nil
			}
			for _, k := range keys {
				k := k
				ls = append(ls, Letter{fmt.Sprintf("Del(%s)", k), func(w *harness.World) { w.Delete("x", k) }})
			}
			for _, k := range keys {
				k := k
				ls = append(ls,
					Letter{fmt.Sprintf("Set(%s,0)", k), func(w *harness.World) { w.SetItem("x", k, 0, bs("low")) }},
					Letter{fmt.Sprintf("Set(%s,%d)", k, n+1), func(w *harness.World) { w.SetItem("x", k, int32(n+1), bs("highest")) }})
			}
			// a new key in the middle of the key range, above and below everything
			mid := []byte{keys[n/2][0], '5'}
			ls = append(ls,
				Letter{fmt.Sprintf("Set(%s,%d) new", mid, n+2), func(w *harness.World) { w.SetItem("x", mid, int32(n+2), bs("new-top")) }},
				Letter{fmt.Sprintf("Set(%s,0) new", mid), func(w *harness.World) { w.SetItem("x", mid, 0, bs("new-bottom")) }})
			ls = append(ls, Letter{"Flush", func(w *harness.World) { w.Flush() }},
				Letter{"Evict", func(w *harness.World) { w.Evict("x") }},
				Letter{"Reopen", func(w *harness.World) { w.Reopen(true); ensureX(w) }})
			return ls
		}}
}

func shapesRule(n, depth int) string {
	return fmt.Sprintf("every treap shape over %d keys (every ranking of %d distinct priorities) x {dirty, flushed, flushed and re-opened} x every history of length <= %d over Delete of each key (join of every pair of subtree shapes), overwrite of each key with the lowest / the highest priority and a value of another length, insertion of a new key in the middle of the range as the new root and as a new leaf (split/union through every shape), Flush, Evict, Reopen", n, n, depth)
}
