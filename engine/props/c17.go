package props

import (
	"fmt"
	"strings"

	"gkvverif/explore"
	"gkvverif/harness"
)

// C17: every subset of the nine store callbacks, behaviourally neutral
// implementations; same oracles as without them, and identical observation
// logs history by history.

func c17Letters(w *harness.World) []Letter {
	var ls []Letter
	if _, ok := w.Colls["x"]; ok {
		ls = append(ls,
			Letter{"Set(a,1)", func(w *harness.World) { w.SetItem("x", kA, 1, bs("value-a")) }},
			Letter{"Set(b,2)", func(w *harness.World) { w.SetItem("x", kB, 2, bs("")) }},
			Letter{"Set(a,3)", func(w *harness.World) { w.SetItem("x", kA, 3, bs("v")) }},
			Letter{"Del(a)", func(w *harness.World) { w.Delete("x", kA) }},
			Letter{"GetItem(a,v)", func(w *harness.World) { w.GetItem("x", kA, true) }},
			Letter{"DescEx(-)", func(w *harness.World) { w.Visit("x", harness.APIDescendEx, bs("c"), false, -1) }},
			Letter{"Evict", func(w *harness.World) { w.Evict("x") }})
	}
	ls = append(ls,
		Letter{"SetColl(y,rev)", func(w *harness.World) { w.SetCollection("y", "rev") }},
		Letter{"Flush", func(w *harness.World) { w.Flush() }},
		Letter{"Reopen", func(w *harness.World) { w.Reopen(true); ensureX(w) }},
		Letter{"Revert", func(w *harness.World) { w.Revert(); ensureX(w) }},
		Letter{"Min(v)", func(w *harness.World) {
			if _, ok := w.Colls["x"]; ok {
				w.MinMax("x", false, true)
			}
		}},
		Letter{"CopyTo(2)", func(w *harness.World) { w.CopyTo(-1, 2) }})
	if _, ok := w.Colls["y"]; ok {
		ls = append(ls, Letter{"Set(y.a)", func(w *harness.World) { w.SetItem("y", kA, 1, bs("ya")) }},
			Letter{"Set(y.b)", func(w *harness.World) { w.SetItem("y", kB, 2, bs("yb")) }})
	}
	return ls
}

func c17Exec(depth int, masks []int) explore.Exec {
	mon := harness.Monitors{Durable: true, Format: true, Tiling: true, Append: true}
	return func(c *explore.Chooser) *explore.Outcome {
		var w, w0 *harness.World
		var stateHash uint64
		mask := 0
		res := harness.RunExec(c, false, 0, func() {
			mask = masks[harness.Choose(len(masks), harness.ClassOp)]
			var picks []int
			w = harness.NewWorld(mon, mask, [][]byte{kA, kB}, false)
			w.SetCollection("x", "nil")
			w.Hist = append(w.Hist, fmt.Sprintf("callbacks=%09b", mask))
			// second initial state: a durable collection under the reverse
			// comparator (its order must survive every way of re-loading roots)
			initial := harness.Choose(2, harness.ClassOp)
			if initial == 1 {
				// several collections with different orders exist from the start:
				// both iteration orders of the library's maps
				harness.SetMapOrderDesc(harness.Choose(2, harness.ClassOp) == 1)
			}
			prepare := func(w *harness.World) {
				if initial == 1 {
					w.SetCollection("y", "rev")
					w.SetItem("y", kA, 1, bs("ya"))
					w.SetItem("y", kB, 2, bs("yb"))
					w.SetItem("x", kA, 1, bs("xa"))
					w.SetItem("x", kB, 3, bs("xb"))
					w.SetItem("x", bs("c"), 2, bs("xc"))
					w.Flush()
				}
			}
			if initial == 1 {
				w.Hist = append(w.Hist, "init:y(rev){a,b},x{a,b,c}+Flush")
			}
			prepare(w)
			for step := 0; step < depth && len(w.Viols) == 0; step++ {
				ls := c17Letters(w)
				k := harness.Choose(len(ls)+1, harness.ClassOp)
				if k == 0 {
					break
				}
				picks = append(picks, k-1)
				w.Hist = append(w.Hist, ls[k-1].Name)
				ls[k-1].Do(w)
			}
			stateHash = w.StateHash()
			if len(w.Viols) == 0 {
				StandardFinish(w)
			}
			if len(w.Viols) > 0 || mask == 0 {
				return
			}
			// the same history without any callback: identical observation log.
			// Evict's random answers are replayed from the recorded choices by
			// running the reference world on the default branch only when the
			// history took the default branch (no ClassRand deviation).
			for _, p := range c.Points {
				if p.Class == explore.ClassRand && p.Chosen != 0 {
					return
				}
			}
			w0 = harness.NewWorld(mon, 0, [][]byte{kA, kB}, false)
			w0.SetCollection("x", "nil")
			prepare(w0)
			for _, k := range picks {
				ls := c17Letters(w0)
				if k >= len(ls) {
					w.Fail("callbacks", "alphabet-differs", "the set of enabled operations differs with callbacks %09b", mask)
					return
				}
				ls[k].Do(w0)
			}
			StandardFinish(w0)
			a, b := strings.Join(w.Log, "\n"), strings.Join(w0.Log, "\n")
			if a != b {
				w.Fail("callbacks", "log-differs", "with callbacks %09b the observation log differs from the log of the same history without callbacks:\n--- with\n%s\n--- without\n%s", mask, a, b)
			}
			for _, v := range w0.Viols {
				w.Viols = append(w.Viols, v)
			}
		})
		out := &explore.Outcome{StateHash: stateHash ^ uint64(mask)<<40}
		if w != nil {
			for _, v := range w.Viols {
				out.Viols = append(out.Viols, explore.Viol{Oracle: v.Oracle, Sig: v.Sig, Msg: v.Msg})
			}
			out.Transitions = w.Trans
			out.Sample = strings.Join(w.Hist, " ")
			out.Log = strings.Join(w.Log, "\n")
			out.ObsHash = harness.HashString(out.Sample + out.Log)
			out.NonTrivial = len(w.Hist) >= 2
			out.Viols = append(out.Viols, verdictViol(res, w.Hist)...)
		} else {
			out.Viols = append(out.Viols, verdictViol(res, nil)...)
		}
		return out
	}
}

func c17Profiles(tier string) []Profile {
	dAll, dSingle := 2, 3
	if tier == "thorough" {
		dAll, dSingle = 3, 4
	}
	var all []int
	for m := 0; m < 512; m++ {
		all = append(all, m)
	}
	singles := []int{0, harness.CBAll}
	for b := 0; b < 9; b++ {
		singles = append(singles, 1<<b)
	}
	conc := &WorldScenario{Name: "pool-reader-vs-overwrite", Mon: harness.Monitors{RefCount: true}, Keys: [][]byte{kA, kB},
		Desc: "a neutral recycling item pool beside a writer: reader [GetItem(a) with value, release] || mutator [Set(a) overwrite, Delete(b)] on a flushed and partly evicted collection: the reader's result must be an item of the collection, never a recycled one",
		Setup: func(w *harness.World) {
			w.SetCollection("x", "nil")
			w.SetItem("x", kA, 2, bs("a0"))
			w.SetItem("x", kB, 1, bs("b0"))
			w.Flush()
			w.Evict("x")
		},
		Threads: []func(w *harness.World){
			func(w *harness.World) { w.GetItemRaw("x", kA, true) },
			func(w *harness.World) { w.SetItem("x", kA, 2, bs("a1")); w.Delete("x", kB) },
		},
		Finish: func(w *harness.World) { w.ObserveAll() }}
	faulted := Profile{Name: "pool-after-faults", Exec: OnlyOracles(c07ExecMon(1, 1, false, harness.Monitors{RefCount: true}), "refcount", "observe", "model"),
		Budget: map[int]int{1: 0, 2: 0, 3: 1}, ShardLevel: 3,
		Rule: "the recycling pool across failed calls: 5 initial stores x every single operation x one failing file call at every index (retried or not), then Set, Flush, full read battery, Reopen: results must be those of a store without callbacks (the model)"}
	pers := c15Persisted("pool-from-persisted", dSingle-1, harness.CBAll)
	return []Profile{
		conc.Profile(2), faulted,
		pers.Profile(fmt.Sprintf("all nine callbacks installed (recycling pool): initial state a(1), b(2) flushed and then {cached, evicted, re-opened}; every history of length <= %d over the C15 alphabet (lookups and evictions from inside key-only visits, Get whose value must stay intact, rejected items, snapshots, CopyTo, block and random visits); results equal the model, no released item is ever delivered", dSingle-1)),
		{Name: "subsets", Exec: c17Exec(dAll, all), ShardLevel: 1, Budget: map[int]int{explore.ClassRand: 1}, Rule: fmt.Sprintf("all 512 subsets of {BeforeItemWrite, AfterItemRead, ItemAlloc, ItemAddRef, ItemDecRef, ItemValLength, ItemValWrite (two chunks), ItemValRead (two chunks), KeyCompareForCollection} x every history of length <= %d over Set/Delete/GetItem/MinItem/visit/Evict/SetCollection(y, reverse)/Flush/Reopen/FlushRevert/CopyTo; whenever ItemAlloc, ItemAddRef and ItemDecRef are all installed they implement a recycling pool (an item whose count reaches zero is scrubbed); oracles of C01 (model), C02 (copy re-opens to the durable state), C09 (file monitor), C14 (independent decoder) all on, plus: the observation log equals that of the same history run without callbacks", dAll)},
		{Name: "singles", Exec: c17Exec(dSingle, singles), ShardLevel: 2, Budget: map[int]int{explore.ClassRand: 1}, Rule: fmt.Sprintf("the empty set, the 9 singletons and the full set x every history of length <= %d, same oracles", dSingle)},
	}
}

func init() {
	register(&Spec{ID: "C17", Level: "model_checking", Profiles: c17Profiles})
}
