package props

import (
	"fmt"
	"strings"

	"gkvverif/explore"
	"gkvverif/harness"
)

// Scenario is one closed concurrent harness (schedx).
type Scenario struct {
	MapDesc bool // iterate the library's string-keyed maps in descending key order
	Name    string
	Setup   func(s *harness.SchedWorld)
	Threads []func(s *harness.SchedWorld)
	Post    func(s *harness.SchedWorld) // optional sequential tail run by the main thread after all threads finished
	// Dynamic, when set, builds the threads from explorer choices (operation
	// mixes); it runs after Setup and returns the threads plus a description.
	Dynamic func(s *harness.SchedWorld) ([]func(s *harness.SchedWorld), string)
	Desc    string
}

func (sc *Scenario) Exec() explore.Exec {
	return func(c *explore.Chooser) *explore.Outcome {
		s := harness.NewSchedWorld()
		var res harness.ExecResult
		rootsBefore := 0
		res = harness.RunExec(c, true, 0, func() {
			harness.SetMapOrderDesc(sc.MapDesc)
			s.Open()
			sc.Setup(s)
			if len(s.Viols) > 0 {
				return
			}
			rootsBefore = len(harness.AllRoots(s.File.Data))
			threads := sc.Threads
			if sc.Dynamic != nil {
				var d string
				threads, d = sc.Dynamic(s)
				s.Hist = append(s.Hist, d)
			}
			s.StartConcurrent()
			n := len(threads)
			for _, th := range threads {
				th := th
				harness.Go(func() {
					th(s)
					s.MarkDone()
				})
			}
			harness.BlockUntil(func() bool { return s.DoneCount() == n })
			harness.Quiesce()
			if sc.Post != nil {
				sc.Post(s)
				harness.Quiesce()
			}
			harness.SetEventHook(nil)
			s.CheckReads()
			s.CheckFlushes(rootsBefore)
			s.CheckFinal()
			s.CheckSnapshot()
		})
		harness.SetEventHook(nil)
		out := &explore.Outcome{}
		var sb strings.Builder
		for _, r := range s.Reads {
			fmt.Fprintf(&sb, "t%d %s(%s)=%s|", r.Thread, r.Kind, r.Arg, r.Result)
		}
		for n, p := range s.Pubs {
			fmt.Fprintf(&sb, "%s:%d pubs|", n, len(p))
		}
		out.Sample = fmt.Sprintf("%s %s: %d choices, reads: %s", sc.Name, strings.Join(s.Hist, " "), len(c.Points), sb.String())
		out.ObsHash = harness.HashString(sb.String())
		out.StateHash = out.ObsHash
		out.Transitions = int(res.Points)
		out.NonTrivial = res.Switches > int64(len(sc.Threads))
		out.Extra = map[string]int64{"switches": res.Switches}
		for _, v := range s.Viols {
			out.Viols = append(out.Viols, explore.Viol{Oracle: v.Oracle, Sig: v.Sig, Msg: sc.Name + " " + strings.Join(s.Hist, " ") + ": " + v.Msg})
		}
		for _, v := range verdictViol(res, []string{sc.Name}) {
			out.Viols = append(out.Viols, v)
		}
		return out
	}
}

func (sc *Scenario) Profile(bound int) Profile {
	return Profile{Name: sc.Name, Exec: sc.Exec(), Budget: map[int]int{explore.ClassSched: bound, explore.ClassRand: 0}, ShardLevel: 2, FreeRun: true,
		Rule: fmt.Sprintf("%s; every schedule with at most %d preemptions (scheduling points: every mutex, atomic and channel operation, every accessor of the unsynchronised node/item locations, every file call, every visitor callback); executions run to completion", sc.Desc, bound)}
}
