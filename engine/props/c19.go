package props

import (
	"fmt"

	"gkvverif/harness"
)

func c19Profiles(tier string) []Profile {
	mon := harness.Monitors{Lazy: true}
	d := 4
	if tier == "thorough" {
		d = 5
	}
	// keys of different lengths: a read sized by one item's key must not run
	// into the value of an item with a shorter key
	kA, kB, kC := bs("a"), bs("bbbbbb"), bs("ccc")
	keys := [][]byte{kA, kB, kC}
	p := &SeqProfile{Name: "lazy", Keys: keys, Depth: d, Init: initX, Mon: mon,
		Finish: func(w *harness.World) {
			// at every state: a clone of the image is re-opened (the open itself is
			// checked) and every key-only operation runs on the never-loaded store
			if !w.Closed && w.File != nil && len(w.M.Flushed) > 0 {
				w.Reopen(true)
				ensureX(w)
				if _, ok := w.M.Cur.Colls["x"]; ok {
					w.GetItem("x", kB, false)
					w.MinMax("x", false, false)
					w.MinMax("x", true, false)
					w.Exist("x", kA)
					w.Visit("x", harness.APIAscendEx, []byte{}, false, -1)
					w.Visit("x", harness.APIIterDescend, bs("zz"), false, -1)
					w.LenOp("x")
					w.SetItem("x", kB, 2, bs("nv"))
					w.Delete("x", kA)
				}
			}
			w.ObserveAll()
		},
		Letters: func(w *harness.World) []Letter {
			var ls []Letter
			for _, k := range keys {
				k := k
				ls = append(ls,
					Letter{fmt.Sprintf("Set(%s)", k), func(w *harness.World) { w.SetItem("x", k, int32(k[0]%3)+1, bs("value-of-"+string(k))) }},
					Letter{fmt.Sprintf("Del(%s)", k), func(w *harness.World) { w.Delete("x", k) }},
					Letter{fmt.Sprintf("GetItem(%s,-)", k), func(w *harness.World) { w.GetItem("x", k, false) }})
			}
			ls = append(ls,
				Letter{"GetItem(a,v)", func(w *harness.World) { w.GetItem("x", kA, true) }},
				Letter{"Min(-)", func(w *harness.World) { w.MinMax("x", false, false) }},
				Letter{"Max(-)", func(w *harness.World) { w.MinMax("x", true, false) }},
				Letter{"Exist(b)", func(w *harness.World) { w.Exist("x", kB) }},
				Letter{"AscEx(-)", func(w *harness.World) { w.Visit("x", harness.APIAscendEx, kB, false, -1) }},
				Letter{"Desc(-)", func(w *harness.World) { w.Visit("x", harness.APIDescend, bs("c"), false, -1) }},
				Letter{"Iter(-)", func(w *harness.World) { w.Visit("x", harness.APIIterAscend, []byte{}, false, 1) }},
				Letter{"Len", func(w *harness.World) { w.LenOp("x") }},
				Letter{"Asc(v)", func(w *harness.World) { w.Visit("x", harness.APIAscend, []byte{}, true, -1) }},
				Letter{"Flush", func(w *harness.World) { w.Flush() }},
				Letter{"Evict", func(w *harness.World) { w.Evict("x") }},
				Letter{"Reopen", func(w *harness.World) { w.Reopen(true); ensureX(w) }},
				Letter{"SetColl(ctl-name)+Flush", func(w *harness.World) {
					// a root record whose JSON needs escaping must still be the one read on open
					w.SetCollection(yName, "nil")
					w.Flush()
				}},
				Letter{"RemoveColl(x)+Flush+Reopen", func(w *harness.World) {
					// the file then ends in the smallest possible root record
					w.RemoveCollection("x")
					w.Flush()
					w.Reopen(true)
					ensureX(w)
				}})
			return ls
		}}
	conc := &WorldScenario{Name: "keyonly-readers", Mon: mon, Keys: keys,
		Desc: "two goroutines doing key-only lookups of the same item whose node is cached and whose item is evicted (re-opened file, key-only lookup, EvictSomeItems): reader [GetItem(k,false), Exist(k)] || reader [GetItem(k,false)]; every ReadAt is checked against the value byte ranges",
		Setup: func(w *harness.World) {
			w.SetCollection("x", "nil")
			for _, k := range keys {
				w.SetItem("x", k, int32(k[0]%3)+1, bs("value-of-"+string(k)))
			}
			w.Flush()
			w.Reopen(true)
			w.GetItem("x", kB, false)
			w.Evict("x")
			w.Evict("x")
		},
		Threads: []func(w *harness.World){
			func(w *harness.World) { w.GetItemRaw("x", kB, false); w.Exist("x", kB) },
			func(w *harness.World) { w.GetItemRaw("x", kB, false) },
		}}
	// value sizes on a ladder around the usual thresholds (page, 64 KiB slice)
	ladder := []int{0, 255, 4096, 8192}
	sd := 1
	if tier == "thorough" {
		ladder = []int{0, 1, 255, 256, 4095, 4096, 4097, 65535, 65536, 70000}
		sd = 2
	}
	mkVal := func(n int, fill byte) []byte {
		v := make([]byte, n)
		for i := range v {
			v[i] = fill + byte(i%7)
		}
		return v
	}
	var curLen int
	sizes := &SeqProfile{Name: "lazy-sizes", Keys: keys, Depth: sd, Mon: mon, Finish: p.Finish,
		Init: func(w *harness.World) {
			curLen = ladder[harness.Choose(len(ladder), harness.ClassOp)]
			cache := harness.Choose(3, harness.ClassOp)
			w.Hist = append(w.Hist, fmt.Sprintf("values of %d bytes/%s", curLen, []string{"flushed+evicted", "reopened", "reopened+GetItem(a,-)"}[cache]))
			w.SetCollection("x", "nil")
			for _, k := range keys {
				w.SetItem("x", k, int32(k[0]%3)+1, mkVal(curLen, k[0]))
			}
			w.Flush()
			switch cache {
			case 0:
				w.Evict("x")
				w.Evict("x")
			case 1:
				w.Reopen(true)
			case 2:
				w.Reopen(true)
				w.GetItem("x", kA, false)
			}
		},
		Letters: func(w *harness.World) []Letter {
			if _, ok := w.Colls["x"]; !ok {
				return nil
			}
			if curLen > 8192 && len(w.Hist) >= 2 {
				return nil // (values of 64 KiB and more: histories of length 1)
			}
			n := curLen
			var ls []Letter
			for _, k := range [][]byte{kA, kB} {
				k := k
				p := int32(k[0]%3) + 1
				ls = append(ls,
					Letter{fmt.Sprintf("Set(%s,same bytes)", k), func(w *harness.World) { w.SetItem("x", k, p, mkVal(n, k[0])) }},
					Letter{fmt.Sprintf("Set(%s,same length)", k), func(w *harness.World) { w.SetItem("x", k, p, mkVal(n, 'Q')) }},
					Letter{fmt.Sprintf("Set(%s,+1 byte,prio+1)", k), func(w *harness.World) { w.SetItem("x", k, p+1, mkVal(n+1, 'R')) }},
					Letter{fmt.Sprintf("Del(%s)", k), func(w *harness.World) { w.Delete("x", k) }},
					Letter{fmt.Sprintf("GetItem(%s,-)", k), func(w *harness.World) { w.GetItem("x", k, false) }})
			}
			return append(ls,
				Letter{"Exist(c)", func(w *harness.World) { w.Exist("x", kC) }},
				Letter{"Desc(-)", func(w *harness.World) { w.Visit("x", harness.APIDescend, bs("zz"), false, -1) }},
				Letter{"Flush", func(w *harness.World) { w.Flush() }},
				Letter{"Evict", func(w *harness.World) { w.Evict("x") }})
		}}
	ph := *p
	ph.Name, ph.Depth, ph.CBMask = "lazy-with-hooks", d-1, harness.CBBeforeWrite|harness.CBAfterRead|harness.CBValLength
	return []Profile{conc.Profile(2),
		sizes.Profile(fmt.Sprintf("3 keys with values of %v bytes, flushed x {evicted, re-opened, re-opened + key-only lookup} x every history of length <= %d over Set of an existing key with the same bytes / other bytes of the same length / one byte more, Delete, key-only lookup and visit, Flush, Evict: overwriting or deleting an item whose value is not cached must not fetch that value, whatever its size (sizes above 8192: histories of length 1)", ladder, sd)),
		ph.Profile(fmt.Sprintf("the same alphabet and oracle with pass-through BeforeItemWrite / AfterItemRead hooks and an ItemValLength callback installed, histories of length <= %d: installing a hook must not make key-only operations read values", d-1)),
		p.Profile(fmt.Sprintf("every history of length <= %d over Set/Delete on 3 keys, key-only lookups (GetItem, Min, Max, Exist), key-only visits through 3 APIs, Len, one value-loading lookup and visit (to vary what is cached), Flush, Evict, Reopen; at the end of every history the file is re-opened and all key-only operations run again on the never-loaded store. Every ReadAt issued during a key-only call is checked against the value byte ranges of all item records (independent decoder over all roots); every open of a file ending in a root record may only Stat and read inside that record and must leave no node cached", d))}
}

func init() {
	register(&Spec{ID: "C19", Level: "model_checking", Profiles: c19Profiles})
}
