package props

import (
	"fmt"

	"gkvverif/harness"
)

func c11Profiles(tier string) []Profile {
	d := 5
	if tier == "thorough" {
		d = 6
	}
	p := &SeqProfile{Name: "copyto", Keys: [][]byte{kA, kB, kC}, Depth: d, Mon: harness.Monitors{Append: true, Format: true}, MapOrders: true,
		Finish: func(w *harness.World) {
			src := -1
			if harness.Choose(2, harness.ClassOp) == 1 {
				w.Snapshot(-1)
				src = len(w.Snaps) - 1
			}
			n := 0
			for _, c := range w.M.Cur.Colls {
				n += len(c.Items)
			}
			fes := []int{1, 2, 3, -1, 0, n, n + 1}
			fe := fes[harness.Choose(len(fes), harness.ClassOp)]
			w.Hist = append(w.Hist, fmt.Sprintf("CopyTo(src=%d,flushEvery=%d)", src, fe))
			w.CopyTo(src, fe)
			w.ObserveAll() // the source (and the snapshot) are unchanged
			w.CheckDurable()
		},
		Letters: func(w *harness.World) []Letter {
			var ls []Letter
			if _, ok := w.Colls["x"]; ok {
				ls = append(ls,
					Letter{"Set(x.a,1)", func(w *harness.World) { w.SetItem("x", kA, 1, bs("va")) }},
					Letter{"Set(x.b,3)", func(w *harness.World) { w.SetItem("x", kB, 3, bs("")) }},
					Letter{"Set(x.c,2)", func(w *harness.World) { w.SetItem("x", kC, 2, bs("vc")) }},
					Letter{"Del(x.a)", func(w *harness.World) { w.Delete("x", kA) }},
					Letter{"Evict(x)", func(w *harness.World) { w.Evict("x") }})
			} else {
				ls = append(ls, Letter{"SetColl(x)", func(w *harness.World) { w.SetCollection("x", "nil") }})
			}
			if _, ok := w.Colls[yName]; ok {
				ls = append(ls,
					Letter{"Set(y.a,2)", func(w *harness.World) { w.SetItem(yName, kA, 2, bs("ya")) }},
					Letter{"Set(y.b,1)", func(w *harness.World) { w.SetItem(yName, kB, 1, bs("yb")) }})
			} else {
				ls = append(ls, Letter{"SetColl(y,rev)", func(w *harness.World) { w.SetCollection(yName, "rev") }})
			}
			ls = append(ls, Letter{"Flush", func(w *harness.World) { w.Flush() }},
				Letter{"Reopen", func(w *harness.World) { w.Reopen(true) }})
			return ls
		}}
	pool := *p
	pool.Name = "copyto-pool"
	pool.Depth = d
	pool.Mon = harness.Monitors{Append: true, Format: true, RefCount: true}
	inner := p.Finish
	pool.Finish = func(w *harness.World) {
		inner(w)
		w.CheckRefLive()
		w.CloseAllAndCheckRefs(true)
	}
	faulted := Profile{Name: "faulted-copy", Exec: OnlySigs(c07Exec(1, 1, false), "CopyTo", "copyto:"),
		Budget: map[int]int{1: 0, 2: 0, 3: 1}, ShardLevel: 3,
		Rule: "CopyTo with one failing file call at every index of the source file and, separately, of the destination file (torn writes included), from 5 initial stores: an error must be reported (a copy that silently lacks items is not a copy) and the source stays as it was"}
	return []Profile{faulted, pool.Profile(fmt.Sprintf("the same product (depth %d) with reference-counting callbacks forming a recycling pool on the source (an item whose count reaches zero is scrubbed): the copy must still be complete, and after closing the source every reference CopyTo took must have been released", d)), p.Profile(fmt.Sprintf("every source state reached by a history of length <= %d over SetCollection(x), SetCollection(y, reverse comparator), Set/Delete/Evict, Flush, Reopen (empty stores and empty collections included) x source in {writable store, snapshot of it} x flushEvery in {-1, 0, 1, 2, 3, n, n+1}; oracles: the returned store equals the model of the source through the whole read API; for flushEvery > 0 a copy of the destination file re-opens (with the collection's comparator) to the same state, is accepted by the independent decoder, and holds exactly one item record per key over the trees of all its root records; the source, its file (byte compare and write monitor) and the snapshot are unchanged", d))}
}

func init() {
	register(&Spec{ID: "C11", Level: "model_checking", Profiles: c11Profiles})
}
