package props

import (
	"fmt"
	"sort"
	"strings"

	"github.com/cbehopkins/gkvlite"

	"gkvverif/explore"
	"gkvverif/harness"
)

// C16: Len, VisitItemsAscendBlockEx and VisitItemsRandom over a size sweep.

type c16Case struct {
	n       int
	keyset  int // 0: k%04d, 1: single bytes (n <= 200)
	prio    int // 0 ascending, 1 descending, 2 alternating
	kind    int // 0 memory, 1 flushed + evicted, 2 reopened
	api     int // 0 Len, 1 BlockEx, 2 Random
	mangler int // BlockEx: 0 nil, 1 identity, 2 reverse, 3 rotate, 4 explorer-chosen permutation
	withVal bool
}

func c16Key(keyset, i int) []byte {
	if keyset == 1 {
		return []byte{byte(i + 1)}
	}
	return []byte(fmt.Sprintf("k%04d", i))
}

func c16Exec(sizes []int, permMangler bool) explore.Exec {
	return func(c *explore.Chooser) *explore.Outcome {
		out := &explore.Outcome{}
		var cs c16Case
		var viols []harness.Viol
		fail := func(sig, format string, a ...interface{}) {
			viols = append(viols, harness.Viol{Oracle: "enumerate", Sig: "enumerate:" + sig, Msg: fmt.Sprintf(format, a...)})
		}
		desc := ""
		res := harness.RunExec(c, false, 400000000, func() { // a degenerate (chain-shaped) treap of 3073 items makes VisitItemsRandom quadratic: ~6e7 steps
			cs.n = sizes[harness.Choose(len(sizes), harness.ClassOp)]
			cs.kind = harness.Choose(3, harness.ClassOp)
			rev := harness.Choose(2, harness.ClassOp) == 1
			cs.prio = harness.Choose(3, harness.ClassOp)
			cs.keyset = 0
			if cs.n <= 200 {
				cs.keyset = harness.Choose(2, harness.ClassOp)
			}
			cs.api = harness.Choose(3, harness.ClassOp)
			if cs.api == 1 {
				nm := 4
				if permMangler {
					nm = 5
				}
				cs.mangler = harness.Choose(nm, harness.ClassOp)
				cs.withVal = harness.Choose(2, harness.ClassOp) == 1
			}
			desc = fmt.Sprintf("n=%d kind=%d prio=%d keyset=%d api=%d mangler=%d withValue=%v reverseComparator=%v", cs.n, cs.kind, cs.prio, cs.keyset, cs.api, cs.mangler, cs.withVal, rev)
			var cmp gkvlite.KeyCompare
			if rev {
				cmp = harness.Cmps["rev"]
			}
			cb := gkvlite.StoreCallbacks{KeyCompareForCollection: func(string) gkvlite.KeyCompare { return cmp }}
			harness.BeginOp("build")
			var f *harness.MemFile
			var st *gkvlite.Store
			var err error
			if cs.kind == 0 {
				st, err = gkvlite.NewStoreEx(nil, cb)
			} else {
				f = &harness.MemFile{}
				st, err = gkvlite.NewStoreEx(f, cb)
			}
			if err != nil {
				fail("setup", "NewStore: %v", err)
				return
			}
			x := st.SetCollection("x", cmp)
			want := map[string]bool{}
			for i := 0; i < cs.n; i++ {
				var p int32
				switch cs.prio {
				case 0:
					p = int32(i + 1)
				case 1:
					p = int32(cs.n - i)
				default:
					p = int32((i*7919)%1000 + 1)
				}
				k := c16Key(cs.keyset, i)
				want[string(k)] = true
				harness.BeginOp("build")
				if err := x.SetItem(&gkvlite.Item{Key: k, Val: []byte("v"), Priority: p}); err != nil {
					fail("setup", "SetItem: %v", err)
					return
				}
			}
			if cs.kind >= 1 {
				harness.BeginOp("build")
				if err := st.Flush(); err != nil {
					fail("setup", "Flush: %v", err)
					return
				}
				if cs.kind == 1 {
					// evict along the default random branch a few times (the visits evict as well)
					x.EvictSomeItems()
				} else {
					st.Close()
					st, err = gkvlite.NewStoreEx(f, cb)
					if err != nil {
						fail("setup", "reopen: %v", err)
						return
					}
					x = st.GetCollection("x")
				}
			}
			seen := map[string]int{}
			visitor := func(it *gkvlite.Item, depth uint64) bool {
				seen[string(it.Key)]++
				return true
			}
			checkSeen := func(api string) {
				var dup, miss, extra []string
				for k, n := range seen {
					if !want[k] {
						extra = append(extra, k)
					} else if n > 1 {
						dup = append(dup, fmt.Sprintf("%q x%d", k, n))
					}
				}
				for k := range want {
					if seen[k] == 0 {
						miss = append(miss, fmt.Sprintf("%q", k))
					}
				}
				sort.Strings(dup)
				sort.Strings(miss)
				if len(dup) > 0 {
					fail(api+"-duplicate", "%s on %d items (%s) presented items more than once: %s", api, cs.n, desc, strings.Join(first(dup, 4), " "))
				}
				if len(miss) > 0 {
					fail(api+"-missed", "%s on %d items (%s) never presented: %s", api, cs.n, desc, strings.Join(first(miss, 4), " "))
				}
				if len(extra) > 0 {
					fail(api+"-extra", "%s on %d items (%s) presented unknown keys", api, cs.n, desc)
				}
			}
			switch cs.api {
			case 0:
				harness.BeginOp("Len")
				l, err := x.Len()
				if err != nil || l != int64(cs.n) {
					fail("len", "Len() = (%d, %v) on a collection of %d items (%s)", l, err, cs.n, desc)
				}
			case 1:
				harness.BeginOp("VisitItemsAscendBlockEx")
				var m gkvlite.BlockMangler
				switch cs.mangler {
				case 1:
					m = func(b [][]byte) [][]byte { return b }
				case 2:
					m = func(b [][]byte) [][]byte {
						for i, j := 0, len(b)-1; i < j; i, j = i+1, j-1 {
							b[i], b[j] = b[j], b[i]
						}
						return b
					}
				case 3:
					m = func(b [][]byte) [][]byte {
						if len(b) > 1 {
							b = append(b[1:], b[0])
						}
						return b
					}
				case 4:
					m = func(b [][]byte) [][]byte {
						for i := len(b) - 1; i > 0; i-- {
							j := harness.Choose(i+1, harness.ClassRand)
							b[i], b[j] = b[j], b[i]
						}
						return b
					}
				}
				err := x.VisitItemsAscendBlockEx(cs.withVal, m, visitor)
				if err != nil && cs.n > 0 {
					fail("blockex-error", "VisitItemsAscendBlockEx returned %v on %d items (%s)", err, cs.n, desc)
				}
				checkSeen("VisitItemsAscendBlockEx")
			case 2:
				harness.BeginOp("VisitItemsRandom")
				err := x.VisitItemsRandom(visitor)
				if err != nil && cs.n > 0 {
					fail("random-error", "VisitItemsRandom returned %v on %d items (%s)", err, cs.n, desc)
				}
				checkSeen("VisitItemsRandom")
			}
		})
		out.Sample = desc
		out.Transitions = cs.n + 1
		out.StateHash = harness.HashString(fmt.Sprintf("%d/%d/%d/%d", cs.n, cs.kind, cs.prio, cs.keyset))
		out.ObsHash = harness.HashString(desc + fmt.Sprint(c.Choices()))
		out.NonTrivial = cs.n > 0
		if len(viols) == 0 && res.Verdict == "" {
			out.Log = desc + " ok"
		}
		for _, v := range viols {
			out.Viols = append(out.Viols, explore.Viol{Oracle: v.Oracle, Sig: v.Sig, Msg: v.Msg})
		}
		for _, v := range verdictViol(res, []string{desc}) {
			out.Viols = append(out.Viols, v)
		}
		return out
	}
}

func first(s []string, n int) []string {
	if len(s) > n {
		return s[:n]
	}
	return s
}

func c16Profiles(tier string) []Profile {
	small := []int{0, 1, 2, 3, 4, 5}
	var sweep []int
	top := 16
	if tier == "thorough" {
		top = 80
	}
	for i := 6; i <= top; i++ {
		sweep = append(sweep, i)
	}
	big := []int{1023, 1024, 1025}
	if tier == "thorough" {
		big = []int{1023, 1024, 1025, 2047, 2048, 2049, 3071, 3072, 3073}
	}
	hd := 5
	if tier == "thorough" {
		hd = 6
	}
	hist := &SeqProfile{Name: "histories", Keys: [][]byte{kA, kB, kC}, Depth: hd, Init: initX,
		Letters: func(w *harness.World) []Letter {
			return []Letter{
				{"Set(a)", func(w *harness.World) { w.SetItem("x", kA, 1, bs("v")) }},
				{"Set(b)", func(w *harness.World) { w.SetItem("x", kB, 3, bs("v")) }},
				{"Set(c)", func(w *harness.World) { w.SetItem("x", kC, 2, bs("v")) }},
				{"Del(a)", func(w *harness.World) { w.Delete("x", kA) }},
				{"Len", func(w *harness.World) { w.LenOp("x") }},
				{"BlockEx", func(w *harness.World) { w.BlockVisit("x", false) }},
				{"Random", func(w *harness.World) { w.RandomVisit("x") }},
			}
		},
		Finish: func(w *harness.World) {
			w.LenOp("x")
			w.BlockVisit("x", true)
			// a second, fresh store of the same process (recycled version handles)
			aux := harness.NewWorld(harness.Monitors{}, 0, [][]byte{kA}, true)
			aux.SetCollection("x", "nil")
			aux.SetItem("x", kA, 1, bs("v"))
			aux.LenOp("x")
			w.Viols = append(w.Viols, aux.Viols...)
			w.ObserveAll()
		}}
	faulted := Profile{Name: "faulted-enumeration", Exec: OnlySigs(c07Exec(1, 1, false), "len-wrong", "visit:", "enumerate:"),
		Budget: map[int]int{1: 0, 2: 0, 3: 1}, ShardLevel: 3,
		Rule: "enumeration when a file call fails: the C07 driver (8 initial stores x every single operation x one failing file call at every index, retried or not; a call that reports success is taken at its word) followed by Set, Flush, the full read battery, a copy of the file re-opened, Reopen and the battery again; Len and the full visits either report the error or enumerate every item (a read error dropped inside the ascending visit gives a short count)"}
	shapes := shapesProfile("shapes", 5, 2, harness.Monitors{}, func(w *harness.World) {
		if _, ok := w.Colls["x"]; ok && !w.Closed {
			w.LenOp("x")
			w.BlockVisit("x", false)
			w.RandomVisit("x")
		}
		w.ObserveAll()
	})
	enumFinish := func(w *harness.World) {
		if _, ok := w.Colls["x"]; ok && !w.Closed {
			w.LenOp("x")
			w.BlockVisit("x", false)
			w.BlockVisit("x", true)
			w.RandomVisit("x")
		}
		w.ObserveAll()
	}
	shapesPool := shapesProfile("shapes-pool", 4, 1, harness.Monitors{}, enumFinish)
	shapesPool.CBMask = harness.CBItemAlloc | harness.CBAddRef | harness.CBDecRef
	return []Profile{
		faulted,
		{Name: "shapes-pool", Exec: shapesPool.Exec(), Budget: map[int]int{explore.ClassRand: 0},
			Rule: shapesRule(4, 1) + "; the store has ItemAlloc / ItemAddRef / ItemDecRef callbacks that form a recycling pool (an item whose count reaches zero is scrubbed: key and value overwritten); then Len, VisitItemsAscendBlockEx (key-only and with values) and VisitItemsRandom: every item exactly once - an enumeration that keeps using a key of an item it has already released walks with a scrubbed target"},
		{Name: "shapes", Exec: shapes.Exec(), Budget: map[int]int{explore.ClassRand: 0},
			Rule: shapesRule(5, 2) + "; then Len, VisitItemsAscendBlockEx and VisitItemsRandom: every item exactly once"},
		{Name: "histories", Exec: hist.Exec(), Budget: map[int]int{explore.ClassRand: 0},
			Rule: fmt.Sprintf("every history of length <= %d over Set (3 keys), Delete, Len, VisitItemsAscendBlockEx and VisitItemsRandom, then Len and a block visit again and Len on a fresh store of the same process: the count must follow every mutation", hd)},
		{Name: "small", Exec: c16Exec(small, true), Rule: "n in 0..5 x {memory, flushed+evicted, reopened} x 3 priority patterns x 2 key sets x {default, reverse comparator} x {Len, VisitItemsAscendBlockEx with nil/identity/reverse/rotate/every permutation x withValue, VisitItemsRandom with every answer sequence of the random source (every block permutation)}"},
		{Name: "sweep", Exec: c16Exec(sweep, false), Budget: map[int]int{explore.ClassRand: 1}, Rule: fmt.Sprintf("n in 6..%d, same product; VisitItemsRandom with the default answer sequence and every single deviation from it", top)},
		{Name: "big", Exec: c16Exec(big, false), Budget: map[int]int{explore.ClassRand: 0}, Rule: fmt.Sprintf("n in %v (not a multiple of the block length / above the maximum block count), same product, default random answers", big)},
	}
}

func init() {
	register(&Spec{ID: "C16", Level: "model_checking", Profiles: c16Profiles})
}
