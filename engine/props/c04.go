package props

import (
	"fmt"
	"strings"

	"gkvverif/harness"
)

// snapLetters returns the per-snapshot letters for every open snapshot.
func snapLetters(w *harness.World, maxAlive int, withRevert bool) []Letter {
	var ls []Letter
	alive := 0
	for _, sn := range w.Snaps {
		if !sn.Closed {
			alive++
		}
	}
	if alive < maxAlive && !w.Closed {
		ls = append(ls, Letter{"Snap(orig)", func(w *harness.World) { w.Snapshot(-1) }})
	}
	for i, sn := range w.Snaps {
		if sn.Closed {
			continue
		}
		i := i
		ls = append(ls, Letter{fmt.Sprintf("CloseSnap(s%d)", i), func(w *harness.World) { w.CloseSnap(i) }})
		if sn.Reverted {
			continue
		}
		ls = append(ls, Letter{fmt.Sprintf("ReadSnap(s%d)", i), func(w *harness.World) { w.ReadSnap(i) }})
		if alive < maxAlive {
			ls = append(ls, Letter{fmt.Sprintf("Snap(s%d)", i), func(w *harness.World) { w.Snapshot(i) }})
		}
		if withRevert {
			ls = append(ls, Letter{fmt.Sprintf("RevertSnap(s%d)", i), func(w *harness.World) { w.RevertSnap(i) }})
		}
		ls = append(ls, Letter{fmt.Sprintf("SnapRefused(s%d)", i), func(w *harness.World) { w.SnapRefused(i) }})
	}
	return ls
}

func c04Profiles(tier string) []Profile {
	d, alive := 5, 2
	if tier == "thorough" {
		d, alive = 6, 3
	}
	p := &SeqProfile{Name: "snapshots", Keys: [][]byte{kA, kB}, Depth: d, Init: initX,
		Mon: harness.Monitors{Append: true},
		Letters: func(w *harness.World) []Letter {
			var ls []Letter
			if !w.Closed {
				if _, ok := w.Colls["x"]; ok {
					ls = append(ls,
						Letter{"Set(a,1)", func(w *harness.World) { w.SetItem("x", kA, 1, bs("v")) }},
						Letter{"Set(b,2)", func(w *harness.World) { w.SetItem("x", kB, 2, bs("w")) }},
						Letter{"Set(a,3)", func(w *harness.World) { w.SetItem("x", kA, 3, bs("")) }},
						Letter{"Del(a)", func(w *harness.World) { w.Delete("x", kA) }},
						Letter{"Del(b)", func(w *harness.World) { w.Delete("x", kB) }},
						Letter{"Evict", func(w *harness.World) { w.Evict("x") }},
						Letter{"RemoveColl(x)", func(w *harness.World) { w.RemoveCollection("x") }})
				}
				ls = append(ls,
					Letter{"SetColl(x)", func(w *harness.World) { w.SetCollection("x", "nil") }},
					Letter{"SetColl(y)", func(w *harness.World) { w.SetCollection("y", "nil") }},
					Letter{"Flush", func(w *harness.World) { w.Flush() }},
					Letter{"CloseStore", func(w *harness.World) { w.CloseStore() }})
			}
			ls = append(ls, snapLetters(w, alive, true)...)
			// a reader parked inside a visit of a snapshot (at most one)
			open := -1
			for i, it := range w.Iters {
				if !it.Closed {
					open = i
				}
			}
			if open >= 0 {
				ls = append(ls, Letter{"IterNext", func(w *harness.World) { w.IterNext(open) }})
			} else {
				for i, sn := range w.Snaps {
					if !sn.Closed && !sn.Reverted {
						i := i
						ls = append(ls, Letter{fmt.Sprintf("IterOpenSnap(s%d)", i), func(w *harness.World) { w.IterOpenSnap(i, "x") }})
						break
					}
				}
			}
			return ls
		},
		Finish: func(w *harness.World) {
			w.DrainIters()
			StandardFinish(w)
		}}
	var conc []Profile
	for _, sc := range c05More() {
		if sc.Name == "S12-snapshot-replaced" || sc.Name == "S5-snapshot" {
			conc = append(conc, sc.Profile(1))
		}
	}
	pm := *p
	pm.Name, pm.NoFile, pm.Depth, pm.Mon = "snapshots-memory", true, d-1, harness.Monitors{}
	pm.Letters = func(w *harness.World) []Letter {
		var ls []Letter
		for _, l := range p.Letters(w) {
			if !strings.HasPrefix(l.Name, "RevertSnap") { // FlushRevert needs a file
				ls = append(ls, l)
			}
		}
		return ls
	}
	conc = append(conc, pm.Profile(fmt.Sprintf("the same alphabet on a memory-only store, histories of length <= %d: a snapshot of a store without a file is just as isolated and just as read-only (Set/Delete through it are refused)", d-1)))
	// every tree shape under an open snapshot: deleting / overwriting inner nodes
	// with two subtrees rebuilds paths through nodes the snapshot shares
	for _, mem := range []bool{false, true} {
		sh := shapesProfile("snapshots-shapes", 4, 2, harness.Monitors{}, nil)
		if mem {
			sh.Name, sh.NoFile = "snapshots-shapes-memory", true
		}
		inner := sh.Init
		sh.Init = func(w *harness.World) {
			inner(w)
			if !w.Closed {
				w.Snapshot(-1)
			}
		}
		rule := shapesRule(4, 2) + "; a snapshot is taken of the initial tree and, at the end of every history, compared through the whole read API with the deep copy of the model taken at its creation (no node the snapshot shares may be changed in place)"
		if mem {
			rule += "; memory-only store (Flush and Reopen are then refused / no-ops)"
		}
		conc = append(conc, sh.Profile(rule))
	}
	return append(conc, p.Profile(fmt.Sprintf("every history of length <= %d interleaving Set/Delete/Evict/Flush/RemoveCollection/SetCollection(existing and new)/Close on the original with Snapshot (of the original and of snapshots, <= %d alive), full reads of a snapshot, an iterator parked inside a visit of a snapshot (which must survive the snapshot's Close and later mutations of the original), FlushRevert of a snapshot, Close of a snapshot and the refused Set/Delete/Flush on a snapshot; at the end every open snapshot is compared, through the whole public read API, with the deep copy of the model taken when it was created, the original with the model, and every write or truncate issued during a snapshot letter is a violation", d, alive)))
}

func init() {
	register(&Spec{ID: "C04", Level: "model_checking", Profiles: c04Profiles})
}
