package props

import (
	"fmt"

	"gkvverif/harness"
)

// ---------------------------------------------------------------- C01

// coreLetters is the C01 core alphabet on collection x (28 letters).
func coreLetters(keys [][]byte, prios []int32, vals [][]byte, withReads bool) func(w *harness.World) []Letter {
	var ls []Letter
	for _, k := range keys {
		k := k
		ls = append(ls, Letter{fmt.Sprintf("Del(%.3s)", k), func(w *harness.World) { w.Delete("x", k) }})
	}
	for _, k := range keys {
		for _, p := range prios {
			for _, v := range vals {
				k, p, v := k, p, v
				ls = append(ls, Letter{fmt.Sprintf("Set(%.3s,%d,%q)", k, p, v), func(w *harness.World) { w.SetItem("x", k, p, v) }})
			}
		}
	}
	ctl := []Letter{
		{"Flush", func(w *harness.World) { w.Flush() }},
		{"Evict", func(w *harness.World) { w.Evict("x") }},
		{"Reopen", func(w *harness.World) { w.Reopen(true); ensureX(w) }},
	}
	var reads []Letter
	if withReads {
		for _, k := range keys {
			k := k
			reads = append(reads, Letter{fmt.Sprintf("GetV(%.3s)", k), func(w *harness.World) { w.GetItem("x", k, true) }})
		}
		reads = append(reads, Letter{"VisitAll", func(w *harness.World) { w.VisitAll("x", true) }})
	}
	all := append(append(append([]Letter{}, ls...), ctl...), reads...)
	return func(w *harness.World) []Letter { return all }
}

func ensureX(w *harness.World) {
	if w.Closed {
		return
	}
	if _, ok := w.Colls["x"]; !ok {
		w.SetCollection("x", "nil")
	}
}

func initX(w *harness.World) { w.SetCollection("x", "nil") }

func c01Profiles(tier string) []Profile {
	// the third key is 60 bytes long and not periodic: keys longer than any
	// plausible read-ahead must come back from the file byte for byte
	kC := longKey("c", 60)
	keys := [][]byte{kA, kB, kC}
	dCore, dMem, dOther := 4, 5, 3
	if tier == "thorough" {
		dCore, dMem, dOther = 5, 7, 4
	}
	var ps []Profile
	core := &SeqProfile{Name: "core", Keys: keys, Depth: dCore, Init: initX,
		Letters: coreLetters(keys, []int32{1, 2, 3}, [][]byte{bs(""), bs("ww")}, true)}
	ps = append(ps, core.Profile(fmt.Sprintf("every history of length <= %d over the 28-letter core alphabet (Set k in{a,b,c} p in{1,2,3} v in{\"\",\"ww\"}; Delete; Flush; Evict with every random branch; Reopen; GetItem with value; full visit) on one file-backed collection", dCore)))

	// the same alphabet from a non-initial state: three items already flushed
	// (tree persisted, partly cached), so that short histories reach
	// "mutate persisted data, flush, re-open"
	persisted := &SeqProfile{Name: "persisted", Keys: keys, Depth: dCore - 1, Mon: harness.Monitors{Durable: true},
		Init: func(w *harness.World) {
			w.SetCollection("x", "nil")
			w.SetItem("x", kA, 2, bs("va"))
			w.SetItem("x", kB, 3, bs("vb"))
			w.SetItem("x", kC, 1, bs(""))
			w.Flush()
		},
		Letters: coreLetters(keys, []int32{1, 2, 3}, [][]byte{bs(""), bs("ww")}, true)}
	ps = append(ps, persisted.Profile(fmt.Sprintf("initial state: items a(2) b(3) c(1) flushed; every history of length <= %d over the core alphabet; additionally a copy of the file must re-open to the last flushed state", dCore-1)))

	ns := 5
	if tier == "thorough" {
		ns = 6
	}
	shapes := shapesProfile("shapes", ns, 2, harness.Monitors{Durable: true}, nil)
	ps = append(ps, shapes.Profile(shapesRule(ns, 2)+"; contents, totals, min/max, lookups and visits equal the model at every end state, in memory and in a re-opened copy of the file"))

	mem := &SeqProfile{Name: "mem", Keys: keys, Depth: dMem, NoFile: true, Init: initX,
		Letters: func(w *harness.World) []Letter {
			var ls []Letter
			for _, k := range keys {
				k := k
				ls = append(ls, Letter{fmt.Sprintf("Del(%s)", k), func(w *harness.World) { w.Delete("x", k) }})
				for _, p := range []int32{1, 2, 3} {
					p := p
					ls = append(ls, Letter{fmt.Sprintf("Set(%s,%d)", k, p), func(w *harness.World) { w.SetItem("x", k, p, bs("v")) }})
				}
			}
			return ls
		}}
	ps = append(ps, mem.Profile(fmt.Sprintf("every history of length <= %d over Set/Delete (3 keys x 3 priorities) on a memory-only store", dMem)))

	// two collections: flush / reopen act on several collections
	two := &SeqProfile{Name: "two", Keys: keys, Depth: dOther, MapOrders: true,
		Init: func(w *harness.World) { w.SetCollection("x", "nil"); w.SetCollection("y", "nil") },
		Letters: func(w *harness.World) []Letter {
			var ls []Letter
			for _, cn := range []string{"x", "y"} {
				cn := cn
				if _, ok := w.Colls[cn]; !ok {
					continue
				}
				for _, k := range [][]byte{kA, kB} {
					k := k
					ls = append(ls, Letter{fmt.Sprintf("Del(%s.%s)", cn, k), func(w *harness.World) { w.Delete(cn, k) }})
					for _, p := range []int32{1, 2} {
						p := p
						ls = append(ls, Letter{fmt.Sprintf("Set(%s.%s,%d)", cn, k, p), func(w *harness.World) { w.SetItem(cn, k, p, bs("v"+cn)) }})
					}
				}
				ls = append(ls, Letter{"Evict(" + cn + ")", func(w *harness.World) { w.Evict(cn) }})
			}
			ls = append(ls, Letter{"Flush", func(w *harness.World) { w.Flush() }})
			ls = append(ls, Letter{"Reopen", func(w *harness.World) {
				w.Reopen(true)
				for _, cn := range []string{"x", "y"} {
					if _, ok := w.Colls[cn]; !ok && !w.Closed {
						w.SetCollection(cn, "nil")
					}
				}
			}})
			return ls
		}}
	ps = append(ps, two.Profile(fmt.Sprintf("every history of length <= %d over Set/Delete/Evict on two collections plus Flush and Reopen", dOther)))

	// boundary arguments
	long := func(n int, b byte) []byte { return longKey(string([]byte{b}), n) }
	type arg struct {
		name string
		k, v []byte
		p    int32
	}
	args := []arg{
		{"ok1", bs("k"), bs("v"), 1},
		{"len65535", long(65535, 'L'), bs("v"), 2},
		{"len65536", long(65536, 'M'), bs("v"), 2},
		{"emptykey", []byte{}, bs("v"), 1},
		{"nilkey", nil, bs("v"), 1},
		{"nilval", bs("n"), nil, 1},
		{"emptyval", bs("e"), []byte{}, 1},
		{"prio-1", bs("p"), bs("v"), -1},
		{"prio0", bs("z"), bs("v"), 0},
		{"priomax", bs("m"), bs("v"), 0x7fffffff},
		{"nul", []byte{0}, bs("v"), 1},
		{"ff", []byte{0xff}, bs("v"), 3},
		{"a-nul", []byte{'a', 0}, bs("v"), 2},
		{"over-k-nilval", bs("k"), nil, 5},
		{"over-k-prio-1", bs("k"), bs("w"), -1},
	}
	bkeys := [][]byte{bs("k"), long(65535, 'L'), long(65536, 'M'), bs("n"), bs("e"), bs("p"), bs("z"), bs("m"), {0}, {0xff}, {'a', 0}}
	bounds := &SeqProfile{Name: "bounds", Keys: bkeys, Depth: dOther, Init: initX,
		Letters: func(w *harness.World) []Letter {
			var ls []Letter
			for _, a := range args {
				a := a
				ls = append(ls, Letter{"Set[" + a.name + "]", func(w *harness.World) { w.SetItem("x", a.k, a.p, a.v) }})
			}
			ls = append(ls, Letter{"Del[k]", func(w *harness.World) { w.Delete("x", bs("k")) }},
				Letter{"Del[len65535]", func(w *harness.World) { w.Delete("x", long(65535, 'L')) }},
				Letter{"Del[nul]", func(w *harness.World) { w.Delete("x", []byte{0}) }},
				Letter{"Flush", func(w *harness.World) { w.Flush() }},
				Letter{"Reopen", func(w *harness.World) { w.Reopen(true); ensureX(w) }})
			return ls
		}}
	ps = append(ps, bounds.Profile(fmt.Sprintf("every history of length <= %d over boundary arguments: key lengths 1/65535/65536/0/nil, values nil/empty, priorities -1/0/MaxInt32, keys 0x00/0xff/a\\x00, invalid overwrites of a valid key; Delete, Flush, Reopen", dOther)))

	// Set/Get wrappers with explorer-chosen random priorities
	setapi := &SeqProfile{Name: "setapi", Keys: keys, Depth: dOther, Init: initX,
		Letters: func(w *harness.World) []Letter {
			var ls []Letter
			for _, k := range [][]byte{kA, kB} {
				k := k
				ls = append(ls, Letter{fmt.Sprintf("SetR(%s)", k), func(w *harness.World) { w.SetRand("x", k, bs("r")) }},
					Letter{fmt.Sprintf("Del(%s)", k), func(w *harness.World) { w.Delete("x", k) }},
					Letter{fmt.Sprintf("Get(%s)", k), func(w *harness.World) { w.Get("x", k) }})
			}
			ls = append(ls, Letter{"Flush", func(w *harness.World) { w.Flush() }},
				Letter{"Reopen", func(w *harness.World) { w.Reopen(true); ensureX(w) }})
			return ls
		}}
	ps = append(ps, setapi.Profile(fmt.Sprintf("every history of length <= %d over Set (every priority the random source can return from a 3-value domain)/Get/Delete/Flush/Reopen", dOther)))
	return ps
}

func init() {
	register(&Spec{ID: "C01", Level: "model_checking", Profiles: c01Profiles,
		Assume: []string{"alphabet: keys a,b,c (plus boundary keys), priorities 1..3, values \"\"/\"ww\"", "reference model: Go map per collection"}})
}
