package props

import (
	"fmt"
	"strings"

	"gkvverif/harness"
)

func c13Profiles(tier string) []Profile {
	mon := harness.Monitors{Invariant: true, Format: true}
	d4, d3 := 4, 5
	if tier == "thorough" {
		d4, d3 = 5, 6
	}
	mk := func(name string, keys [][]byte, nprio int, depth int) *SeqProfile {
		return &SeqProfile{Name: name, Keys: keys, Depth: depth, Init: initX, Mon: mon,
			Finish: func(w *harness.World) {
				if _, ok := w.Colls["x"]; ok {
					ks := w.M.Cur.Colls["x"].SortedKeys()
					if len(ks) > 1 {
						// partial visits in both directions from the median key
						w.Visit("x", harness.APIAscendEx, ks[len(ks)/2], false, -1)
						w.Visit("x", harness.APIDescendEx, ks[len(ks)/2], false, -1)
						w.CheckVisitDepths()
					}
				}
				StandardFinish(w)
			},
			Letters: func(w *harness.World) []Letter {
				var ls []Letter
				for _, k := range keys {
					k := k
					for p := 1; p <= nprio; p++ {
						p := int32(p)
						ls = append(ls, Letter{fmt.Sprintf("Set(%s,%d)", k, p), func(w *harness.World) { w.SetItem("x", k, p, bs(strings.Repeat("v", int(p))+string(k))) }})
					}
				}
				for _, k := range keys {
					k := k
					ls = append(ls, Letter{fmt.Sprintf("Del(%s)", k), func(w *harness.World) { w.Delete("x", k) }})
				}
				ls = append(ls, Letter{"Flush", func(w *harness.World) { w.Flush() }},
					Letter{"Evict", func(w *harness.World) { w.Evict("x") }},
					Letter{"Reopen", func(w *harness.World) { w.Reopen(true); ensureX(w) }})
				return ls
			}}
	}
	p4 := mk("four", [][]byte{kA, kB, kC, kD}, 4, d4)
	p3 := mk("three", [][]byte{kA, kB, kC}, 3, d3)
	faulted := Profile{Name: "after-faults", Exec: OnlySigs(OnlyOracles(c07ExecMon(1, 1, false, harness.Monitors{Invariant: true, Format: true}), "invariant", "format", "model"), "invariant:", "format:", "model:totals"),
		Budget: map[int]int{1: 0, 2: 0, 3: 1}, ShardLevel: 3,
		Rule: "treap invariants when a file call fails: the C07 driver (8 initial stores x every single operation x one failing file call at every index, retried or not; a call that reports success is taken at its word) followed by Set, Flush, the full read battery, a copy of the file re-opened, Reopen and the battery again; after the suffix's Flush and again after its Reopen the walk of the cached tree must satisfy order, aggregates and heap order, GetTotals must equal the model, and every flushed tree must pass the independent decoder's aggregate checks (a mutation that drops the read error of a sibling subtree records wrong counts)"}
	ns, ds := 5, 2
	if tier == "thorough" {
		ns, ds = 6, 2
	}
	shapes := shapesProfile("shapes", ns, ds, mon, p4.Finish)
	fd := 4
	if tier == "thorough" {
		fd = 5
	}
	return []Profile{
		foldCmpProfile(fd),
		faulted,
		shapes.Profile(shapesRule(ns, ds) + "; same oracles as profile four at every end state"),
		p4.Profile(fmt.Sprintf("every history of length <= %d over Set(k,p) for 4 keys x priorities 1..4 (every insertion order, every priority ranking and tie pattern), Delete, Flush, Evict (every random branch), Reopen; at every end state the side-effect-free walk of the cached tree gives: in-order keys strictly ascending, every node's numNodes/numBytes equal to the recomputed subtree values, (while no key was overwritten with a lower priority) no child outranks its parent and, with pairwise distinct priorities, every key's depth equals its depth in the reference treap of the current (key, priority) set; the same order and aggregate checks on every node record of every flushed tree via the independent decoder", d4)),
		p3.Profile(fmt.Sprintf("every history of length <= %d over 3 keys x priorities 1..3 with the same letters (all insertion orders followed by every delete/overwrite sequence of length <= %d with cache letters in between)", d3, d3-3)),
	}
}

func init() {
	register(&Spec{ID: "C13", Level: "model_checking", Profiles: c13Profiles})
}
