package props

import (
	"fmt"
	"strings"

	"gkvverif/harness"
)

func setup3(reopen bool) func(s *harness.SchedWorld) {
	return func(s *harness.SchedWorld) {
		s.AddColl("m")
		s.SeqSet("m", bs("a"), 2, bs("a0"))
		s.SeqSet("m", bs("c"), 3, bs("c0"))
		s.SeqSet("m", bs("e"), 1, bs("e0"))
		s.SeqFlush()
		if reopen {
			s.SeqReopen()
		}
	}
}

func c05Scenarios() []*Scenario {
	return []*Scenario{
		{Name: "S1-get", Desc: "mutator [Set b, Delete a] || reader [Get a, Get b, GetTotals] on a re-opened 3-item file",
			Setup: setup3(true),
			Threads: []func(s *harness.SchedWorld){
				func(s *harness.SchedWorld) { s.MutSet("m", bs("b"), 5, bs("b1")); s.MutDelete("m", bs("a")) },
				func(s *harness.SchedWorld) { s.RGet("m", bs("a")); s.RGet("m", bs("b")); s.RTotals("m") },
			}},
		{Name: "S2-visit", Desc: "mutator [Set b, Set d] || reader [full ascending visit, visitor is a scheduling point] on a re-opened 3-item file",
			Setup: setup3(true),
			Threads: []func(s *harness.SchedWorld){
				func(s *harness.SchedWorld) { s.MutSet("m", bs("b"), 5, bs("b1")); s.MutSet("m", bs("d"), 4, bs("d1")) },
				func(s *harness.SchedWorld) { s.RVisit("m", false, 0) },
			}},
		{Name: "S4-flush", Desc: "collections m,n: mutator [Set m.b, Set n.x, Set m.d] || flusher [Flush] || reader [Get n.x]",
			Setup: func(s *harness.SchedWorld) {
				s.AddColl("m")
				s.AddColl("n")
				s.SeqSet("m", bs("a"), 2, bs("a0"))
				s.SeqSet("n", bs("y"), 2, bs("y0"))
				s.SeqFlush()
			},
			Threads: []func(s *harness.SchedWorld){
				func(s *harness.SchedWorld) {
					s.MutSet("m", bs("b"), 5, bs("b1"))
					s.MutSet("n", bs("x"), 4, bs("x1"))
					s.MutSet("m", bs("d"), 1, bs("d1"))
				},
				func(s *harness.SchedWorld) { s.FFlush() },
				func(s *harness.SchedWorld) { s.RGet("n", bs("x")) },
			}},
	}
}

func c05More() []*Scenario {
	return []*Scenario{
		{Name: "S3-pinned", Desc: "mutator [Set b, Set d, Delete b] || reader [ascending visit stopping after the first item] || reader [Min, Max]",
			Setup: setup3(false),
			Threads: []func(s *harness.SchedWorld){
				func(s *harness.SchedWorld) {
					s.MutSet("m", bs("b"), 5, bs("b1"))
					s.MutSet("m", bs("d"), 4, bs("d1"))
					s.MutDelete("m", bs("b"))
				},
				func(s *harness.SchedWorld) { s.RVisit("m", false, 1) },
				func(s *harness.SchedWorld) { s.RMinMax("m", false); s.RMinMax("m", true) },
			}},
		{Name: "S5-snapshot", Desc: "mutator [Set b, Delete c] || reader [Snapshot(), read it completely]",
			Setup: setup3(false),
			Threads: []func(s *harness.SchedWorld){
				func(s *harness.SchedWorld) { s.MutSet("m", bs("b"), 5, bs("b1")); s.MutDelete("m", bs("c")) },
				func(s *harness.SchedWorld) { s.RSnapshot("m") },
			}},
		{Name: "S6-evict", Desc: "mutator [EvictSomeItems, Set d] || reader [descending visit] on a flushed, cached tree",
			Setup: setup3(false),
			Threads: []func(s *harness.SchedWorld){
				func(s *harness.SchedWorld) { s.MutEvict("m"); s.MutSet("m", bs("d"), 4, bs("d1")) },
				func(s *harness.SchedWorld) { s.RVisit("m", true, 0) },
			}},
		{Name: "S7-lazy", Desc: "reader [Get c, Max] || reader [ascending visit] on a freshly re-opened file (both load the same nodes and items lazily)",
			Setup: setup3(true),
			Threads: []func(s *harness.SchedWorld){
				func(s *harness.SchedWorld) { s.RGet("m", bs("c")); s.RMinMax("m", true) },
				func(s *harness.SchedWorld) { s.RVisit("m", false, 0) },
			}},
		{Name: "S9-value-vs-keyonly", Desc: "reader [ascending visit with values] || reader [descending, then ascending visit without values] on a freshly re-opened file (one evicts and re-loads key-only what the other is about to complete with its value)",
			Setup: setup3(true),
			Threads: []func(s *harness.SchedWorld){
				func(s *harness.SchedWorld) { s.RVisit("m", false, 0) },
				func(s *harness.SchedWorld) { s.RVisitKeyOnly("m", true); s.RVisitKeyOnly("m", false) },
			}},
		{Name: "S11-slow-get", Desc: "reader [Get a, Get c: the values are not in memory (re-opened file)] || mutator [Set a (overwrite), Set c (overwrite), Delete e]: a lookup whose value read is slow must still answer from one version",
			Setup: setup3(true),
			Threads: []func(s *harness.SchedWorld){
				func(s *harness.SchedWorld) { s.RGet("m", bs("a")); s.RGet("m", bs("c")) },
				func(s *harness.SchedWorld) {
					s.MutSet("m", bs("a"), 2, bs("a1"))
					s.MutSet("m", bs("c"), 3, bs("c1"))
					s.MutDelete("m", bs("e"))
				},
			}},
		{Name: "S12-snapshot-replaced", Desc: "a snapshot is open and the collection was then replaced by SetCollection on the same name: reader [3 lookups through the snapshot] || mutator [Set b, Delete a through the new handle]; the version handle they share must be protected by one lock (lock-discipline check on its reference count)",
			Setup: func(s *harness.SchedWorld) {
				setup3(false)(s)
				s.SeqSnapshotAndReplace("m")
			},
			Threads: []func(s *harness.SchedWorld){
				func(s *harness.SchedWorld) {
					s.RSnapGet("m", bs("a"))
					s.RSnapGet("m", bs("c"))
					s.RSnapGet("m", bs("b"))
				},
				func(s *harness.SchedWorld) { s.MutSet("m", bs("b"), 5, bs("b1")); s.MutDelete("m", bs("a")) },
			}},
		{Name: "S15-flush-vs-setcollection", Desc: "collections m (unflushed change, written first) and n (two items, flushed): flusher [Flush] || mutator [SetCollection(n) on the existing name, SetCollection(m)]: replacing a handle publishes no new version, so the root record of that Flush must still hold both collections with their contents",
			Setup: func(s *harness.SchedWorld) {
				s.AddColl("m")
				s.AddColl("n")
				s.SeqSet("m", bs("a"), 2, bs("a0"))
				s.SeqSet("n", bs("y"), 2, bs("y0"))
				s.SeqSet("n", bs("z"), 1, bs("z0"))
				s.SeqFlush()
				s.SeqSet("m", bs("b"), 3, bs("b0"))
			},
			Threads: []func(s *harness.SchedWorld){
				func(s *harness.SchedWorld) { s.FFlush() },
				func(s *harness.SchedWorld) { s.MutSetCollection("n"); s.MutSetCollection("m") },
			}},
		{Name: "S13-stats", Desc: "mutator [Set b, Delete a] || reader [AllocStats + Stats, Get c, AllocStats]: the statistics calls take the free-list locks that the mutator's release path also takes",
			Setup: setup3(false),
			Threads: []func(s *harness.SchedWorld){
				func(s *harness.SchedWorld) { s.MutSet("m", bs("b"), 5, bs("b1")); s.MutDelete("m", bs("a")) },
				func(s *harness.SchedWorld) { s.RStats("m"); s.RGet("m", bs("c")); s.RStats("m") },
			}},
		{Name: "S14-snapshot-flush", Desc: "a snapshot is open; flusher [Flush] || mutator [Set b, Set d, Delete a, Set c]: afterwards the snapshot must still read the version it was taken on (a pin released on the wrong version shows here)",
			Setup: func(s *harness.SchedWorld) {
				s.AddColl("m")
				s.SeqSet("m", bs("a"), 2, bs("a0"))
				s.SeqSet("m", bs("c"), 3, bs("c0"))
				s.SeqSet("m", bs("e"), 1, bs("e0"))
				s.SeqSnapshot()
			},
			Threads: []func(s *harness.SchedWorld){
				func(s *harness.SchedWorld) { s.FFlush() },
				func(s *harness.SchedWorld) {
					s.MutSet("m", bs("b"), 5, bs("b1"))
					s.MutSet("m", bs("d"), 4, bs("d1"))
					s.MutDelete("m", bs("a"))
					s.MutSet("m", bs("c"), 3, bs("c1"))
				},
			},
			Post: func(s *harness.SchedWorld) {
				// the mutator goes on after the Flush has returned
				s.MutSet("m", bs("e"), 1, bs("e2"))
				s.MutSet("m", bs("b"), 5, bs("b2"))
				s.MutDelete("m", bs("d"))
			}},
		{Name: "S8-flushes", Desc: "mutator [Set b, Delete a] || flusher [Flush, Flush]",
			Setup: setup3(false),
			Threads: []func(s *harness.SchedWorld){
				func(s *harness.SchedWorld) { s.MutSet("m", bs("b"), 5, bs("b1")); s.MutDelete("m", bs("a")) },
				func(s *harness.SchedWorld) { s.FFlush(); s.FFlush() },
			}},
	}
}

// c05Mixes: the product of small thread programs ("for all operation mixes").
func c05Mixes(readerLen int) *Scenario {
	type op struct {
		name string
		do   func(s *harness.SchedWorld)
	}
	mops := []op{
		{"Set(a)", func(s *harness.SchedWorld) { s.MutSet("m", bs("a"), 2, bs("a1")) }},
		{"Set(b)", func(s *harness.SchedWorld) { s.MutSet("m", bs("b"), 5, bs("b1")) }},
		{"Del(c)", func(s *harness.SchedWorld) { s.MutDelete("m", bs("c")) }},
		{"Evict", func(s *harness.SchedWorld) { s.MutEvict("m") }},
	}
	rops := []op{
		{"Get(a)", func(s *harness.SchedWorld) { s.RGet("m", bs("a")) }},
		{"Get(c)", func(s *harness.SchedWorld) { s.RGet("m", bs("c")) }},
		{"Totals", func(s *harness.SchedWorld) { s.RTotals("m") }},
		{"Min", func(s *harness.SchedWorld) { s.RMinMax("m", false) }},
		{"Max", func(s *harness.SchedWorld) { s.RMinMax("m", true) }},
		{"Asc", func(s *harness.SchedWorld) { s.RVisit("m", false, 0) }},
		{"Desc", func(s *harness.SchedWorld) { s.RVisit("m", true, 0) }},
		{"AscStop1", func(s *harness.SchedWorld) { s.RVisit("m", false, 1) }},
		{"KeysDesc", func(s *harness.SchedWorld) { s.RVisitKeyOnly("m", true) }},
		{"Snapshot", func(s *harness.SchedWorld) { s.RSnapshot("m") }},
		{"Stats", func(s *harness.SchedWorld) { s.RStats("m") }},
	}
	if readerLen == 1 {
		// two composite programs the one-operation tier would otherwise lack: a
		// visit (which evicts what it passed) followed by a lookup of a key it evicted
		rops = append(rops,
			op{"Asc;Get(a)", func(s *harness.SchedWorld) { s.RVisit("m", false, 0); s.RGet("m", bs("a")) }},
			op{"KeysDesc;Get(c)", func(s *harness.SchedWorld) { s.RVisitKeyOnly("m", true); s.RGet("m", bs("c")) }})
	}
	pick := func(ops []op, maxLen int) ([]op, string) {
		var prog []op
		var names []string
		for i := 0; i < maxLen; i++ {
			alts := len(ops)
			if i > 0 {
				alts++ // stop
			}
			k := harness.Choose(alts, harness.ClassOp)
			if i > 0 && k == len(ops) {
				break
			}
			prog = append(prog, ops[k])
			names = append(names, ops[k].name)
		}
		return prog, "[" + strings.Join(names, ",") + "]"
	}
	return &Scenario{Name: "mixes",
		Desc: fmt.Sprintf("every mix: initial store in {flushed and cached, flushed and re-opened} x mutator program of 1..2 operations over {Set a (overwrite), Set b (new), Delete c, EvictSomeItems} x reader program of 1..%d operations over {Get a, Get c, GetTotals, Min, Max, ascending visit, descending visit, visit with early stop, key-only visit, Snapshot+read, AllocStats/Stats} (the one-operation tier adds the programs [ascending visit, Get a] and [key-only descending visit, Get c]) x with or without a concurrent Flush", readerLen),
		Setup: func(s *harness.SchedWorld) {
			setup3(harness.Choose(2, harness.ClassOp) == 1)(s)
		},
		Dynamic: func(s *harness.SchedWorld) ([]func(s *harness.SchedWorld), string) {
			mp, mn := pick(mops, 2)
			rp, rn := pick(rops, readerLen)
			ths := []func(s *harness.SchedWorld){
				func(s *harness.SchedWorld) {
					for _, o := range mp {
						o.do(s)
					}
				},
				func(s *harness.SchedWorld) {
					for _, o := range rp {
						o.do(s)
					}
				},
			}
			d := "mutator" + mn + " reader" + rn
			if harness.Choose(2, harness.ClassOp) == 1 {
				ths = append(ths, func(s *harness.SchedWorld) { s.FFlush() })
				d += " flusher[Flush]"
			}
			return ths, d
		}}
}

func c05Profiles(tier string) []Profile {
	var ps []Profile
	// interleavings at operation granularity with readers blocked inside their
	// visitor callbacks (deeper than any preemption bound reaches): sequential
	dr := 6
	if tier == "thorough" {
		dr = 7
	}
	if tier == "thorough" {
		mp := c05Mixes(2).Profile(1)
		mp.ShardLevel = 4
		ps = append(ps, mp)
	} else {
		mp := c05Mixes(1).Profile(1)
		mp.ShardLevel = 4
		ps = append(ps, mp)
	}
	rp := readersProfile(dr)
	rp.Name = "S10-paused-readers"
	ps = append(ps, rp.Profile("readers blocked in their callbacks: "+readersRule(dr)))
	if tier == "thorough" {
		for _, sc := range append(c05Scenarios(), c05More()...) {
			ps = append(ps, sc.Profile(2))
		}
		for _, sc := range c05Scenarios()[:2] {
			sc2 := *sc
			sc2.Name += "-b3"
			ps = append(ps, sc2.Profile(3))
		}
		return ps
	}
	for _, sc := range c05Scenarios() {
		ps = append(ps, sc.Profile(2))
		if sc.Name == "S4-flush" {
			r := *sc
			r.Name, r.MapDesc = "S4-flush-maporder-desc", true
			r.Desc += " (the library's maps iterate in descending key order)"
			ps = append(ps, r.Profile(2))
		}
	}
	for _, sc := range c05More() {
		b := 1
		if sc.Name == "S9-value-vs-keyonly" || sc.Name == "S11-slow-get" {
			b = 2
		}
		ps = append(ps, sc.Profile(b))
	}
	return ps
}

func init() {
	register(&Spec{ID: "C05", Level: "model_checking", Profiles: c05Profiles})
}
