package props

import (
	"fmt"
	"strings"

	"gkvverif/harness"
)

func c15Finish(w *harness.World) {
	w.CheckHeldVals()
	w.CheckRefLive()
	w.ObserveAll()
	w.CheckRefLive()
	w.CheckHeldVals()
	snapsFirst := harness.Choose(2, harness.ClassOp) == 1
	w.CloseAllAndCheckRefs(snapsFirst)
}

// c15Mixes: the product of small thread programs under the counting (and
// scrubbing) callbacks: mutator program x reader program x initial cache state.
func c15Mixes(mon harness.Monitors, persisted bool) *WorldScenario {
	kC := bs("c")
	universe := [][]byte{kA, kB, kC}
	type op struct {
		name string
		do   func(w *harness.World)
	}
	mops := []op{
		{"Set(a)", func(w *harness.World) { w.SetItem("x", kA, 2, bs("a1")) }},
		{"Set(c)", func(w *harness.World) { w.SetItem("x", kC, 5, bs("c1")) }},
		{"Del(b)", func(w *harness.World) { w.Delete("x", kB) }},
		{"Evict", func(w *harness.World) { w.Evict("x") }},
		{"Flush", func(w *harness.World) { w.Flush() }},
	}
	name := "refcount-mixes-persisted"
	desc := "initial collection {a,b} in {flushed and cached, flushed and evicted} x mutator program of 1..2 operations over {Set a (overwrite), Set c (new), Delete b, EvictSomeItems, Flush}"
	if !persisted {
		// nothing is ever written: no item has a file location, so nothing is
		// evicted or re-read and cached items are only released with their nodes
		mops = mops[:4]
		name = "refcount-mixes"
		desc = "initial never-flushed collection {a,b}, {without, with} an open snapshot x mutator program of 1..2 operations over {Set a (overwrite), Set c (new), Delete b, EvictSomeItems}"
	}
	var rops []op
	for _, k := range []string{"get:a:v", "get:b:k", "min", "max", "asc", "desc-keys", "asc-stop0", "iter", "iter-stop0"} {
		k := k
		rops = append(rops, op{k, func(w *harness.World) { w.RawRead("x", k, universe) }})
	}
	pick := func(ops []op, maxLen int) ([]op, string) {
		var prog []op
		var names []string
		for i := 0; i < maxLen; i++ {
			alts := len(ops)
			if i > 0 {
				alts++
			}
			k := harness.Choose(alts, harness.ClassOp)
			if i > 0 && k == len(ops) {
				break
			}
			prog = append(prog, ops[k])
			names = append(names, ops[k].name)
		}
		return prog, "[" + strings.Join(names, ",") + "]"
	}
	return &WorldScenario{Name: name, Mon: mon, Keys: universe, SigWithMix: persisted,
		Desc: "reference counting for every mix: " + desc + " x reader program of one operation over {GetItem a with value, GetItem b key only, MinItem, MaxItem, ascending visit, descending key-only visit, visit stopped at the first item, iterator, iterator closed at the first item}; every item handed out is live when delivered and still when the reader resumes after being descheduled inside its visitor, no scrubbed byte shows, balance is zero after closing",
		Setup: func(w *harness.World) {
			w.SetCollection("x", "nil")
			w.SetItem("x", kA, 2, bs("a0"))
			w.SetItem("x", kB, 1, bs("b0"))
			alt := harness.Choose(2, harness.ClassOp) == 1
			if persisted {
				w.Flush()
				if alt {
					w.Evict("x")
				}
			} else if alt {
				w.Snapshot(-1)
			}
		},
		Dynamic: func(w *harness.World) ([]func(w *harness.World), string) {
			mp, mn := pick(mops, 2)
			rp, rn := pick(rops, 1)
			return []func(w *harness.World){
				func(w *harness.World) {
					for _, o := range mp {
						o.do(w)
					}
				},
				func(w *harness.World) {
					for _, o := range rp {
						o.do(w)
					}
				},
			}, " mutator" + mn + " reader" + rn
		},
		Finish: func(w *harness.World) {
			w.CheckRefLive()
			w.CloseAllAndCheckRefs(true)
		}}
}

func c15Letters(w *harness.World) []Letter {
	var ls []Letter
	if !w.Closed {
		if _, ok := w.Colls["x"]; ok {
			ls = append(ls,
				Letter{"Set(a,1)", func(w *harness.World) { w.SetItem("x", kA, 1, bs("v")) }},
				Letter{"Set(b,2)", func(w *harness.World) { w.SetItem("x", kB, 2, bs("w")) }},
				Letter{"Set(a,3)", func(w *harness.World) { w.SetItem("x", kA, 3, bs("")) }},
				Letter{"Set(a,-1) rejected", func(w *harness.World) { w.SetItem("x", kA, -1, bs("n")) }},
				Letter{"Set(b,nil) rejected", func(w *harness.World) { w.SetItem("x", kB, 1, nil) }},
				Letter{"Del(a)", func(w *harness.World) { w.Delete("x", kA) }},
				Letter{"Del(b)", func(w *harness.World) { w.Delete("x", kB) }},
				Letter{"Evict", func(w *harness.World) { w.Evict("x") }},
				Letter{"Get(a)", func(w *harness.World) { w.Get("x", kA) }},
				Letter{"GetItem(a,v)", func(w *harness.World) { w.GetItem("x", kA, true) }},
				Letter{"GetItem(b,-)", func(w *harness.World) { w.GetItem("x", kB, false) }},
				Letter{"Exist(a)", func(w *harness.World) { w.Exist("x", kA) }},
				Letter{"Min", func(w *harness.World) { w.MinMax("x", false, true) }},
				Letter{"Asc(all)", func(w *harness.World) { w.Visit("x", harness.APIAscend, []byte{}, true, -1) }},
				Letter{"DescEx(stop0)", func(w *harness.World) { w.Visit("x", harness.APIDescendEx, bs("zz"), false, 0) }},
				Letter{"Iter(stop0)", func(w *harness.World) { w.Visit("x", harness.APIIterAscend, []byte{}, true, 0) }},
				Letter{"Len", func(w *harness.World) { w.LenOp("x") }},
				Letter{"KeyVisit{GetItem(b,v)}", func(w *harness.World) {
					w.VisitNestedMode("x", "GetItem(b,v)", false, 0, func() { w.GetItem("x", kB, true) })
				}},
				Letter{"KeyVisit{Evict}", func(w *harness.World) {
					w.VisitNestedMode("x", "Evict", false, 0, func() { w.Evict("x") })
				}},
				Letter{"CopyTo(1)", func(w *harness.World) { w.CopyTo(-1, 1) }},
				Letter{"BlockEx", func(w *harness.World) { w.BlockVisit("x", true) }},
				Letter{"Random", func(w *harness.World) { w.RandomVisit("x") }},
				Letter{"RemoveColl(x)", func(w *harness.World) { w.RemoveCollection("x") }})
		}
		ls = append(ls,
			Letter{"SetColl(x)", func(w *harness.World) { w.SetCollection("x", "nil") }},
			Letter{"Set(w.a)", func(w *harness.World) {
				if _, ok := w.Colls["w"]; !ok {
					w.SetCollection("w", "nil")
				}
				w.SetItem("w", kA, 1, bs("wa"))
			}},
			Letter{"Flush", func(w *harness.World) { w.Flush() }},
			Letter{"Reopen", func(w *harness.World) { w.Reopen(true); ensureX(w) }})
	}
	return append(ls, snapLetters(w, 1, false)...)
}

// c15Persisted: the C15 alphabet from a non-initial state - items a(1), b(2)
// (b is the root, a its left child) flushed and then cached / evicted /
// re-opened, so that two letters reach "look up or evict the parent from
// inside a key-only visit of persisted items".
func c15Persisted(name string, depth int, cbMask int) *SeqProfile {
	return &SeqProfile{Name: name, Keys: [][]byte{kA, kB}, Depth: depth, Finish: c15Finish, CBMask: cbMask,
		Mon: harness.Monitors{RefCount: true}, Letters: c15Letters,
		Init: func(w *harness.World) {
			w.SetCollection("x", "nil")
			w.SetItem("x", kA, 1, bs("va"))
			w.SetItem("x", kB, 2, bs("vb"))
			w.Flush()
			switch harness.Choose(3, harness.ClassOp) {
			case 0:
				w.Hist = append(w.Hist, "flushed")
			case 1:
				w.Hist = append(w.Hist, "flushed+evicted")
				w.Evict("x")
			case 2:
				w.Hist = append(w.Hist, "reopened")
				w.Reopen(true)
			}
		}}
}

func c15Profiles(tier string) []Profile {
	d := 4
	if tier == "thorough" {
		d = 5
	}
	p := &SeqProfile{Name: "refcount", Keys: [][]byte{kA, kB}, Depth: d, Init: initX, Finish: c15Finish,
		Mon: harness.Monitors{RefCount: true}, Letters: c15Letters}
	pp := c15Persisted("refcount-from-persisted", d-2, 0)
	conc := &WorldScenario{Name: "reader-vs-overwrite", Mon: harness.Monitors{RefCount: true}, Keys: [][]byte{kA, kB},
		Desc: "reference counting beside a writer: reader [GetItem(a) with value, release] || mutator [Set(a) overwrite, Delete(b)] on a flushed and partly evicted collection; counting callbacks with scrubbing of released items",
		Setup: func(w *harness.World) {
			w.SetCollection("x", "nil")
			w.SetItem("x", kA, 2, bs("a0"))
			w.SetItem("x", kB, 1, bs("b0"))
			w.Flush()
			w.Evict("x")
		},
		Threads: []func(w *harness.World){
			func(w *harness.World) { w.GetItemRaw("x", kA, true) },
			func(w *harness.World) { w.SetItem("x", kA, 2, bs("a1")); w.Delete("x", kB) },
		},
		Finish: func(w *harness.World) {
			w.CheckRefLive()
			w.CloseAllAndCheckRefs(true)
		}}
	mp := c15Mixes(harness.Monitors{RefCount: true}, false).Profile(1)
	mp.ShardLevel = 4
	mpp := c15Mixes(harness.Monitors{RefCount: true}, true).Profile(1)
	mpp.ShardLevel = 4
	faulted := Profile{Name: "refcount-after-faults", Exec: OnlyOracles(c07ExecMon(1, 1, false, harness.Monitors{RefCount: true}), "refcount", "observe", "model"),
		Budget: map[int]int{1: 0, 2: 0, 3: 1}, ShardLevel: 3,
		Rule: "reference counting across failed calls: 5 initial stores x every single operation x one failing file call at every index (retried or not), then Set, Flush, full read battery, Reopen, Close; counts never negative, no use after release (released items are scrubbed); a zero balance is not demanded after a failed call"}
	return []Profile{conc.Profile(2), mp, mpp, faulted,
		pp.Profile(fmt.Sprintf("initial state: a(1), b(2) flushed (b is the root, a its left child) and then {cached, evicted, re-opened}; every history of length <= %d over the same alphabet and oracles as profile refcount", d-2)),
		p.Profile(fmt.Sprintf("every history of length <= %d over Set/Delete/Evict, SetItem of a rejected item (negative priority, nil value), Get (the value it returns stays intact for the rest of the history), GetItem (both value modes), Exist, MinItem, ascending visit, descending Ex visit with early stop, iterator with early close, key-only visits whose callback looks up another key with its value or evicts, CopyTo (two collections), Len, block and random visits, RemoveCollection, SetCollection (new/existing), Flush, Reopen, Snapshot / read / close of a snapshot, then closing snapshots and store in both orders; counting ItemAlloc/ItemAddRef/ItemDecRef callbacks: no count below zero, every item handed to a visitor or the caller and every cached item reachable from an open handle has a positive count, and after closing everything all counts are zero; an item whose count reaches zero is scrubbed (key and value overwritten) and any later reference to it is reported, so a use after release shows as a wrong result", d))}
}

func init() {
	register(&Spec{ID: "C15", Level: "model_checking", Profiles: c15Profiles})
}
