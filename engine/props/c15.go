package props

import (
	"fmt"

	"gkvverif/harness"
)

func c15Finish(w *harness.World) {
	w.CheckRefLive()
	w.ObserveAll()
	w.CheckRefLive()
	snapsFirst := harness.Choose(2, harness.ClassOp) == 1
	w.CloseAllAndCheckRefs(snapsFirst)
}

func c15Profiles(tier string) []Profile {
	d := 4
	if tier == "thorough" {
		d = 5
	}
	p := &SeqProfile{Name: "refcount", Keys: [][]byte{kA, kB}, Depth: d, Init: initX, Finish: c15Finish,
		Mon: harness.Monitors{RefCount: true},
		Letters: func(w *harness.World) []Letter {
			var ls []Letter
			if !w.Closed {
				if _, ok := w.Colls["x"]; ok {
					ls = append(ls,
						Letter{"Set(a,1)", func(w *harness.World) { w.SetItem("x", kA, 1, bs("v")) }},
						Letter{"Set(b,2)", func(w *harness.World) { w.SetItem("x", kB, 2, bs("w")) }},
						Letter{"Set(a,3)", func(w *harness.World) { w.SetItem("x", kA, 3, bs("")) }},
						Letter{"Del(a)", func(w *harness.World) { w.Delete("x", kA) }},
						Letter{"Del(b)", func(w *harness.World) { w.Delete("x", kB) }},
						Letter{"Evict", func(w *harness.World) { w.Evict("x") }},
						Letter{"GetItem(a,v)", func(w *harness.World) { w.GetItem("x", kA, true) }},
						Letter{"GetItem(b,-)", func(w *harness.World) { w.GetItem("x", kB, false) }},
						Letter{"Exist(a)", func(w *harness.World) { w.Exist("x", kA) }},
						Letter{"Min", func(w *harness.World) { w.MinMax("x", false, true) }},
						Letter{"Asc(all)", func(w *harness.World) { w.Visit("x", harness.APIAscend, []byte{}, true, -1) }},
						Letter{"DescEx(stop0)", func(w *harness.World) { w.Visit("x", harness.APIDescendEx, bs("zz"), false, 0) }},
						Letter{"Iter(stop0)", func(w *harness.World) { w.Visit("x", harness.APIIterAscend, []byte{}, true, 0) }},
						Letter{"Len", func(w *harness.World) { w.LenOp("x") }},
						Letter{"KeyVisit{GetItem(b,v)}", func(w *harness.World) {
							w.VisitNestedMode("x", "GetItem(b,v)", false, 0, func() { w.GetItem("x", kB, true) })
						}},
						Letter{"KeyVisit{Evict}", func(w *harness.World) {
							w.VisitNestedMode("x", "Evict", false, 0, func() { w.Evict("x") })
						}},
						Letter{"CopyTo(1)", func(w *harness.World) { w.CopyTo(-1, 1) }},
						Letter{"BlockEx", func(w *harness.World) { w.BlockVisit("x", true) }},
						Letter{"Random", func(w *harness.World) { w.RandomVisit("x") }},
						Letter{"RemoveColl(x)", func(w *harness.World) { w.RemoveCollection("x") }})
				}
				ls = append(ls,
					Letter{"SetColl(x)", func(w *harness.World) { w.SetCollection("x", "nil") }},
					Letter{"Set(w.a)", func(w *harness.World) {
						if _, ok := w.Colls["w"]; !ok {
							w.SetCollection("w", "nil")
						}
						w.SetItem("w", kA, 1, bs("wa"))
					}},
					Letter{"Flush", func(w *harness.World) { w.Flush() }},
					Letter{"Reopen", func(w *harness.World) { w.Reopen(true); ensureX(w) }})
			}
			return append(ls, snapLetters(w, 1, false)...)
		}}
	conc := &WorldScenario{Name: "reader-vs-overwrite", Mon: harness.Monitors{RefCount: true}, Keys: [][]byte{kA, kB},
		Desc: "reference counting beside a writer: reader [GetItem(a) with value, release] || mutator [Set(a) overwrite, Delete(b)] on a flushed and partly evicted collection; counting callbacks with scrubbing of released items",
		Setup: func(w *harness.World) {
			w.SetCollection("x", "nil")
			w.SetItem("x", kA, 2, bs("a0"))
			w.SetItem("x", kB, 1, bs("b0"))
			w.Flush()
			w.Evict("x")
		},
		Threads: []func(w *harness.World){
			func(w *harness.World) { w.GetItemRaw("x", kA, true) },
			func(w *harness.World) { w.SetItem("x", kA, 2, bs("a1")); w.Delete("x", kB) },
		},
		Finish: func(w *harness.World) {
			w.CheckRefLive()
			w.CloseAllAndCheckRefs(true)
		}}
	faulted := Profile{Name: "refcount-after-faults", Exec: OnlyOracles(c07ExecMon(1, 1, false, harness.Monitors{RefCount: true}), "refcount", "observe", "model"),
		Budget: map[int]int{1: 0, 2: 0, 3: 1}, ShardLevel: 3,
		Rule: "reference counting across failed calls: 5 initial stores x every single operation x one failing file call at every index (retried or not), then Set, Flush, full read battery, Reopen, Close; counts never negative, no use after release (released items are scrubbed); a zero balance is not demanded after a failed call"}
	return []Profile{conc.Profile(2), faulted, p.Profile(fmt.Sprintf("every history of length <= %d over Set/Delete/Evict, GetItem (both value modes), Exist, MinItem, ascending visit, descending Ex visit with early stop, iterator with early close, key-only visits whose callback looks up another key with its value or evicts, CopyTo (two collections), Len, block and random visits, RemoveCollection, SetCollection (new/existing), Flush, Reopen, Snapshot / read / close of a snapshot, then closing snapshots and store in both orders; counting ItemAlloc/ItemAddRef/ItemDecRef callbacks: no count below zero, every item handed to a visitor or the caller and every cached item reachable from an open handle has a positive count, and after closing everything all counts are zero; an item whose count reaches zero is scrubbed (key and value overwritten) and any later reference to it is reported, so a use after release shows as a wrong result", d))}
}

func init() {
	register(&Spec{ID: "C15", Level: "model_checking", Profiles: c15Profiles})
}
