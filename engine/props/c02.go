package props

import (
	"fmt"

	"gkvverif/harness"
)

// storeLetters: mutations on x (2 keys) and y (1 key), collection management
// of y, Flush, Evict, Reopen.  Letters on a collection are only offered while
// it exists, so the alphabet depends on the state reached.
func storeLetters(withEvict, withCollMgmt bool) func(w *harness.World) []Letter {
	return func(w *harness.World) []Letter {
		var ls []Letter
		if _, ok := w.Colls["x"]; ok {
			for _, k := range [][]byte{kA, kB} {
				k := k
				ls = append(ls, Letter{fmt.Sprintf("Del(x.%s)", k), func(w *harness.World) { w.Delete("x", k) }})
				for _, p := range []int32{1, 2} {
					p := p
					v := bs("v")
					if p == 2 {
						v = bs("")
					}
					ls = append(ls, Letter{fmt.Sprintf("Set(x.%s,%d)", k, p), func(w *harness.World) { w.SetItem("x", k, p, v) }})
				}
			}
			if withEvict {
				ls = append(ls, Letter{"Evict(x)", func(w *harness.World) { w.Evict("x") }})
			}
		}
		if _, ok := w.Colls["y"]; ok {
			ls = append(ls, Letter{"Set(y.a,1)", func(w *harness.World) { w.SetItem("y", kA, 1, bs("yy")) }},
				Letter{"Del(y.a)", func(w *harness.World) { w.Delete("y", kA) }})
			if withCollMgmt {
				ls = append(ls, Letter{"RemoveColl(y)", func(w *harness.World) { w.RemoveCollection("y") }})
			}
		}
		if withCollMgmt {
			ls = append(ls, Letter{"SetColl(y)", func(w *harness.World) { w.SetCollection("y", "nil") }})
		}
		ls = append(ls, Letter{"Flush", func(w *harness.World) { w.Flush() }},
			Letter{"Reopen", func(w *harness.World) { w.Reopen(true); ensureX(w) }})
		return ls
	}
}

func c02Profiles(tier string) []Profile {
	d := 5
	if tier == "thorough" {
		d = 6
	}
	keys := [][]byte{kA, kB}
	p := &SeqProfile{Name: "durable", Keys: keys, Depth: d, Init: initX, Mon: harness.Monitors{Durable: true}, MapOrders: true,
		Letters: storeLetters(true, true)}
	// Flush beside the (single) mutating goroutine: what it persists must be a
	// state the store really had during the call
	var conc []Profile
	for _, sc := range c05More() {
		if sc.Name == "S8-flushes" {
			sc2 := *sc
			sc2.Name = "flush-beside-mutator"
			conc = append(conc, sc2.Profile(1))
		}
	}
	return append(conc, p.Profile(fmt.Sprintf("every history of length <= %d over Set/Delete on x (2 keys x 2 priorities), Set/Delete on y, SetCollection(y) (new and existing), RemoveCollection(y), Evict, Flush, Reopen (close, open the same file, continue); at the end of every history a byte copy of the file is opened in a fresh Store and must equal the model's newest durable state (top of the flush stack, empty if none)", d)))
}

func init() {
	register(&Spec{ID: "C02", Level: "model_checking", Profiles: c02Profiles})
}
