package props

import (
	"fmt"

	"gkvverif/harness"
)

// storeLetters: mutations on x (2 keys) and y (1 key), collection management
// of y, Flush, Evict, Reopen.  Letters on a collection are only offered while
// it exists, so the alphabet depends on the state reached.
// yName: the second collection's name needs JSON escaping in the root record
// (control characters 0x01 and DEL).
const yName = "y\x01\x7f"

func storeLetters(withEvict, withCollMgmt bool) func(w *harness.World) []Letter {
	return func(w *harness.World) []Letter {
		var ls []Letter
		if _, ok := w.Colls["x"]; ok {
			for _, k := range [][]byte{kA, kB} {
				k := k
				ls = append(ls, Letter{fmt.Sprintf("Del(x.%s)", k), func(w *harness.World) { w.Delete("x", k) }})
				for _, p := range []int32{1, 2} {
					p := p
					v := bs("v")
					if p == 2 {
						v = bs("")
					}
					ls = append(ls, Letter{fmt.Sprintf("Set(x.%s,%d)", k, p), func(w *harness.World) { w.SetItem("x", k, p, v) }})
				}
			}
			if withEvict {
				ls = append(ls, Letter{"Evict(x)", func(w *harness.World) { w.Evict("x") }})
			}
		}
		if _, ok := w.Colls[yName]; ok {
			ls = append(ls, Letter{"Set(y.a,1)", func(w *harness.World) { w.SetItem(yName, kA, 1, bs("yy")) }},
				Letter{"Del(y.a)", func(w *harness.World) { w.Delete(yName, kA) }})
			if withCollMgmt {
				ls = append(ls, Letter{"RemoveColl(y)", func(w *harness.World) { w.RemoveCollection(yName) }})
			}
		}
		if mc := w.M.Cur.Colls[yName]; withCollMgmt && (mc == nil || harness.OrderOf(mc.Cmp) == "bytes" || len(mc.Items) <= 1) {
			// (a comparator that changes the order may only be installed while it cannot matter)
			ls = append(ls, Letter{"SetColl(y)", func(w *harness.World) { w.SetCollection(yName, "nil") }})
		}
		ls = append(ls, Letter{"Flush", func(w *harness.World) { w.Flush() }},
			Letter{"Reopen", func(w *harness.World) { w.Reopen(true) }})
		// the store may end up without any collection: the root record of an
		// empty store is the smallest one there is
		if _, ok := w.Colls["x"]; !ok {
			ls = append(ls, Letter{"SetColl(x)", func(w *harness.World) { w.SetCollection("x", "nil") }})
		} else if withCollMgmt {
			ls = append(ls, Letter{"RemoveColl(x)", func(w *harness.World) { w.RemoveCollection("x") }})
		}
		return ls
	}
}

func c02Profiles(tier string) []Profile {
	d := 5
	if tier == "thorough" {
		d = 6
	}
	keys := [][]byte{kA, kB}
	p := &SeqProfile{Name: "durable", Keys: keys, Depth: d, Init: initX, Mon: harness.Monitors{Durable: true}, MapOrders: true,
		Letters: storeLetters(true, true)}
	// Flush beside the (single) mutating goroutine: what it persists must be a
	// state the store really had during the call
	var conc []Profile
	for _, sc := range c05More() {
		if sc.Name == "S8-flushes" {
			sc2 := *sc
			sc2.Name = "flush-beside-mutator"
			conc = append(conc, sc2.Profile(1))
		}
	}
	pre := &SeqProfile{Name: "durable-from-flushed", Keys: keys, Depth: d - 1, Mon: harness.Monitors{Durable: true}, MapOrders: true,
		Init: func(w *harness.World) {
			w.SetCollection("x", "nil")
			w.SetItem("x", kA, 2, bs("v"))
			w.SetItem("x", kB, 1, bs(""))
			w.SetCollection(yName, "nil")
			w.SetItem(yName, kA, 1, bs("yy"))
			w.Flush()
		},
		Letters: func(w *harness.World) []Letter {
			ls := storeLetters(true, true)(w)
			if _, ok := w.Colls["x"]; ok {
				// a key of exactly the maximum length must be durable like any other
				ls = append(ls, Letter{"Set(x.key65535)", func(w *harness.World) { w.SetItem("x", longKey("m", 65535), 2, bs("max")) }},
					// values whose length is an exact multiple of 64 KiB (block-sized payloads)
					Letter{"Set(x.val65536)", func(w *harness.World) { w.SetItem("x", bs("v1"), 1, longKey("V", 65536)) }},
					Letter{"Set(x.val131072)", func(w *harness.World) { w.SetItem("x", bs("v2"), 3, longKey("W", 131072)) }})
			}
			return ls
		}}
	conc = append(conc, pre.Profile(fmt.Sprintf("initial state: x{a,b}, y{a} flushed; every history of length <= %d over the same alphabet (deleting or overwriting persisted items, removing persisted collections, a maximum-length key, values of exactly 64 KiB and 128 KiB, then Flush / Reopen)", d-1)))
	conc = append(conc, Profile{Name: "after-failed-flush", Exec: OnlyOracles(c07Exec(1, 1, false), "durable", "observe", "model"),
		Budget: map[int]int{1: 0, 2: 0, 3: 1}, ShardLevel: 3,
		Rule: "durability of a Flush that follows a failed one: the C07 driver (8 initial stores x every single operation x one failing file call at every index, retried or not) followed by Set, Flush, a copy of the file re-opened, Reopen; contents oracles only"})
	framed := &SeqProfile{Name: "durable-framed", Keys: keys, Depth: d - 1, Init: initX, Mon: harness.Monitors{Durable: true}, CBMask: harness.CBFramed,
		Letters: storeLetters(true, true)}
	conc = append(conc, framed.Profile(fmt.Sprintf("the durable profile (histories of length <= %d) with a BeforeItemWrite / AfterItemRead pair installed that stores every value with a two-byte trailer (length, checksum) and verifies and strips it on read: the stored form differs in length from the in-memory form; every state a successful Flush reported must come back through the pair after re-opening a copy of the file", d-1)))
	rv := &SeqProfile{Name: "durable-revert", Keys: keys, Depth: d - 1, Init: initX, Mon: harness.Monitors{Durable: true},
		Letters: func(w *harness.World) []Letter {
			return append(storeLetters(true, true)(w), Letter{"Revert", func(w *harness.World) { w.Revert() }})
		}}
	conc = append(conc, rv.Profile(fmt.Sprintf("the durable alphabet plus FlushRevert, histories of length <= %d (idle Flushes, Flushes that only add or remove a collection, reverts of those): re-opening yields the most recent successful Flush that was not reverted - exactly one Flush is taken back per FlushRevert", d-1)))
	tt := 4400
	if tier == "thorough" {
		tt = 9000
	}
	conc = append(conc, tornTail(harness.Monitors{Durable: true}, tt).Profile(fmt.Sprintf("history [Set Flush, Set Flush] + an unflushed tail of every length 0..%d bytes after the last root record (what Collection.Write or a Flush that died leaves behind; every 8th ends in a byte-exact copy of the first root record), then Reopen: the store must be exactly the last successful Flush whatever follows it in the file (a backward scan in chunks of any size below the tail bound meets every alignment of the end marker); then Set, Flush, and a copy of the file re-opened", tt-1)))
	vframed := &SeqProfile{Name: "durable-valframed", Keys: keys, Depth: d - 1, Init: initX, Mon: harness.Monitors{Durable: true}, CBMask: harness.CBValFramed,
		Letters: storeLetters(true, true)}
	conc = append(conc, vframed.Profile(fmt.Sprintf("the durable profile (histories of length <= %d) with the ItemValLength / ItemValWrite / ItemValRead triple installed: every value is stored with a two-byte trailer written by a separate file call (the stored length is what ItemValLength answers, not len(Val)); byte totals must count the stored lengths everywhere, and every state a successful Flush reported must come back through ItemValRead after re-opening a copy of the file", d-1)))
	return append(conc, p.Profile(fmt.Sprintf("every history of length <= %d over Set/Delete on x (2 keys x 2 priorities), Set/Delete on y, SetCollection(y) (new and existing), RemoveCollection(y), Evict, Flush, Reopen (close, open the same file, continue); at the end of every history a byte copy of the file is opened in a fresh Store and must equal the model's newest durable state (top of the flush stack, empty if none)", d)))
}

func init() {
	register(&Spec{ID: "C02", Level: "model_checking", Profiles: c02Profiles})
}
