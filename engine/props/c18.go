package props

import (
	"bytes"
	"fmt"
	"strings"

	"github.com/cbehopkins/gkvlite"

	"gkvverif/explore"
	"gkvverif/harness"
)

// C18: iterators abandoned at any position, every Next/Close word, consumer x
// producer interleavings; re-entrant calls from visitor callbacks.

var c18Keys = [][]byte{bs("b"), bs("d"), bs("f"), bs("h")}

func c18Build(w *harness.World, n int, cache int) {
	w.SetCollection("x", "nil")
	prios := []int32{2, 4, 1, 3}
	for i := 0; i < n; i++ {
		w.SetItem("x", c18Keys[i], prios[i], bs("v"+string(c18Keys[i])))
	}
	switch cache {
	case 1:
		w.Flush()
		w.Reopen(true)
		ensureX(w)
	}
}

func c18ScriptExec(maxN int, preemptive bool, allowMutate bool) explore.Exec {
	return func(c *explore.Chooser) *explore.Outcome {
		var w *harness.World
		var desc string
		res := harness.RunExec(c, preemptive, 0, func() {
			n := harness.Choose(maxN+1, harness.ClassOp)
			cache := harness.Choose(2, harness.ClassOp)
			descending := harness.Choose(2, harness.ClassOp) == 1
			withValue := harness.Choose(2, harness.ClassOp) == 1
			w = harness.NewWorld(harness.Monitors{}, 0, c18Keys, false)
			c18Build(w, n, cache)
			if len(w.Viols) > 0 {
				return
			}
			col := w.Colls["x"]
			mc := w.M.Cur.Colls["x"].Clone() // the version the iterator pins (mutations come later)
			var target []byte
			var it gkvlite.ItemIterator
			harness.BeginOp("Iterate")
			if descending {
				target = []byte{0xff}
				it = col.IterateDescend(target, withValue)
			} else {
				target = []byte{}
				it = col.IterateAscend(target, withValue)
			}
			want := harness.ExpectRange(mc, target, descending)
			var word []string
			delivered := 0
			ended := false // Close called or Next returned false
			extra := 0
			mutated := false
			for step := 0; step < n+6; step++ {
				// Next, Close, and either Mutate (the consumer is the mutating goroutine;
				// only once the first item was delivered, i.e. the version is pinned)
				// or, after the end, stop
				alts := 2
				if ended || (allowMutate && delivered > 0 && !mutated) {
					alts = 3
				}
				k := harness.Choose(alts, harness.ClassOp)
				if step >= n+2 && !ended {
					k = 1 // the word must end: force Close
				}
				if k == 2 && ended {
					break
				}
				if k == 2 {
					// a mutation while the producer is parked inside its visit: the
					// iterator must keep delivering the version it pinned
					mutated = true
					word = append(word, "Mutate")
					w.SetItem("x", c18Keys[0], 9, bs("changed"))
					continue
				}
				if k == 0 {
					harness.BeginOp("Next")
					ok := it.Next()
					word = append(word, fmt.Sprintf("Next=%v", ok))
					if ended {
						extra++
						if ok {
							w.Fail("iterator", "next-after-end", "Next() returned true after Close()/exhaustion (word %v)", word)
						}
					} else if delivered < len(want) {
						if !ok {
							w.Fail("iterator", "short", "Next() returned false after %d of %d items (err %v, word %v)", delivered, len(want), it.Err(), word)
							ended = true
						} else {
							r := it.Result()
							ri := mc.Items[string(want[delivered])]
							if r == nil || !bytes.Equal(r.Key, want[delivered]) || r.Priority != ri.Prio || (withValue && (r.Val == nil || !bytes.Equal(r.Val, ri.Val))) {
								w.Fail("iterator", "wrong-item", "item %d: got %v, expected key %q (word %v)", delivered, r, want[delivered], word)
							}
							delivered++
						}
					} else {
						if ok {
							w.Fail("iterator", "extra-item", "Next() returned true beyond the %d items of the range (word %v)", len(want), word)
						}
						ended = true
					}
				} else {
					harness.BeginOp("Close")
					it.Close()
					word = append(word, "Close")
					if ended {
						extra++
					}
					ended = true
				}
				if extra >= 2 {
					break
				}
			}
			if !ended {
				it.Close()
				word = append(word, "Close")
			}
			// statistics may be read while the abandoned producer winds down
			harness.BeginOp("AllocStats")
			col.AllocStats()
			desc = fmt.Sprintf("n=%d cache=%d desc=%v withValue=%v word=%v", n, cache, descending, withValue, word)
			w.Hist = append(w.Hist, desc)
			// the producer exits and releases the version it pinned
			harness.BeginOp("Quiesce")
			harness.Quiesce()
			if harness.Instrumented {
				if l := harness.LiveLibThreads(); l != 0 {
					w.Fail("iterator", "producer-leak", "%d producer goroutine(s) still alive after the consumer finished with the iterator (%s)", l, desc)
				}
				if ri, ok := harness.Root(w.Colls["x"]); ok && (ri.Refs != 1 || ri.Chained) {
					w.Fail("iterator", "pin-not-released", "after the iterator ended the current version has refs=%d chained=%v (expected 1, false) (%s)", ri.Refs, ri.Chained, desc)
				}
			}
			// the consumer goes on as the mutating goroutine
			w.SetItem("x", bs("c"), 9, bs("vc"))
			if n > 0 {
				w.Delete("x", c18Keys[0])
			}
			w.Visit("x", harness.APIIterAscend, []byte{}, true, -1)
			harness.Quiesce()
			if harness.Instrumented {
				if l := harness.LiveLibThreads(); l != 0 {
					w.Fail("iterator", "producer-leak", "%d producer goroutine(s) alive after the second iterator (%s)", l, desc)
				}
				fa, _, _ := harness.FreeCounts()
				_ = fa
			}
			w.ObserveAll()
		})
		out := &explore.Outcome{}
		if w != nil {
			for _, v := range w.Viols {
				out.Viols = append(out.Viols, explore.Viol{Oracle: v.Oracle, Sig: v.Sig, Msg: v.Msg})
			}
			out.Sample = desc
			out.Transitions = int(res.Points)
			out.Log = strings.Join(w.Log, "\n")
			if out.Log != "" {
				out.Log = desc + "\n" + out.Log
			}
			out.ObsHash = harness.HashString(desc)
			out.StateHash = harness.HashString(strings.SplitN(desc, "word", 2)[0])
			out.NonTrivial = true
		}
		out.Viols = append(out.Viols, verdictViol(res, []string{desc})...)
		return out
	}
}

// inner actions performed inside a visitor callback
var c18Inner = []string{"Get", "Min", "Totals", "NestedVisit", "Snapshot", "Iterator", "Len", "Set", "Delete", "Flush", "Evict", "SetNew", "SetColl(y)", "SetColl+RemoveColl(y)", "Stats", "SetColl(x)", "RemoveColl(x)"}

func c18Reentrant(maxN int) explore.Exec {
	apis := []string{"Ascend", "Descend", "AscendEx", "DescendEx", "IterAscend", "IterDescend", "BlockEx", "Random"}
	return func(c *explore.Chooser) *explore.Outcome {
		var w *harness.World
		var desc string
		res := harness.RunExec(c, false, 0, func() {
			n := 1 + harness.Choose(maxN, harness.ClassOp)
			cache := harness.Choose(2, harness.ClassOp)
			api := harness.Choose(len(apis), harness.ClassOp)
			pos := harness.Choose(n, harness.ClassOp)
			inner := harness.Choose(len(c18Inner), harness.ClassOp)
			w = harness.NewWorld(harness.Monitors{RefCount: true}, 0, c18Keys, false)
			c18Build(w, n, cache)
			if len(w.Viols) > 0 {
				return
			}
			desc = fmt.Sprintf("n=%d cache=%d outer=%s callback#%d inner=%s", n, cache, apis[api], pos, c18Inner[inner])
			w.Hist = append(w.Hist, desc)
			col := w.Colls["x"]
			pinned := w.M.Cur.Colls["x"].Clone()
			singleVisit := apis[api] != "BlockEx" && apis[api] != "Random" // those are sequences of separate visits
			doInner := func() {
				switch c18Inner[inner] {
				case "Get":
					w.Get("x", c18Keys[0])
				case "Min":
					w.MinMax("x", false, true)
				case "Totals":
					w.Totals("x")
				case "NestedVisit":
					w.Visit("x", harness.APIDescendEx, []byte{0xff}, true, -1)
				case "Snapshot":
					w.Snapshot(-1)
					w.ReadSnap(len(w.Snaps) - 1)
					w.CloseSnap(len(w.Snaps) - 1)
				case "Iterator":
					w.Visit("x", harness.APIIterAscend, []byte{}, false, 1)
				case "Len":
					w.LenOp("x")
				case "Set":
					w.SetItem("x", c18Keys[0], 7, bs("changed"))
				case "SetNew":
					w.SetItem("x", bs("e"), 8, bs("ve"))
				case "Delete":
					w.Delete("x", c18Keys[n-1])
				case "Flush":
					w.Flush()
				case "Evict":
					w.Evict("x")
				case "SetColl(y)":
					w.SetCollection("y", "nil")
				case "SetColl+RemoveColl(y)":
					w.SetCollection("y", "nil")
					w.RemoveCollection("y")
				case "Stats":
					w.Stats()
				case "SetColl(x)", "RemoveColl(x)":
					// the visitor retires the very handle it is being called from; the
					// visit in flight goes on over the version it pinned (the block and
					// random visits are sequences of separate visits: not offered there)
					if singleVisit {
						if c18Inner[inner] == "SetColl(x)" {
							w.SetCollection("x", "nil")
						} else {
							w.RemoveCollection("x")
						}
					}
				}
				harness.BeginOp("outer " + apis[api])
			}
			var got []string
			seen := 0
			cb := func(it *gkvlite.Item) bool {
				if !w.ItemLive(it) {
					w.Fail("refcount", "visited-item-released", "outer %s handed the visitor an item that had been released (%s)", apis[api], desc)
				}
				got = append(got, string(it.Key))
				if ri, ok := pinned.Items[string(it.Key)]; singleVisit && (!ok || it.Priority != ri.Prio || (it.Val != nil && !bytes.Equal(it.Val, ri.Val))) {
					w.Fail("reentrant", "outer-item", "outer %s delivered (%q,%d,%q), not an item of the version pinned at its start (%s)", apis[api], it.Key, it.Priority, it.Val, desc)
				}
				if seen == pos {
					doInner()
				}
				seen++
				return true
			}
			cbEx := func(it *gkvlite.Item, d uint64) bool { return cb(it) }
			harness.BeginOp("outer " + apis[api])
			var err error
			descOrder := false
			exactOrder := true
			switch apis[api] {
			case "Ascend":
				err = col.VisitItemsAscend([]byte{}, true, cb)
			case "Descend":
				err = col.VisitItemsDescend([]byte{0xff}, true, cb)
				descOrder = true
			case "AscendEx":
				err = col.VisitItemsAscendEx([]byte{}, false, cbEx)
			case "DescendEx":
				err = col.VisitItemsDescendEx([]byte{0xff}, false, cbEx)
				descOrder = true
			case "IterAscend", "IterDescend":
				var it gkvlite.ItemIterator
				if apis[api] == "IterAscend" {
					it = col.IterateAscend([]byte{}, true)
				} else {
					it = col.IterateDescend([]byte{0xff}, true)
					descOrder = true
				}
				for it.Next() {
					cb(it.Result())
				}
				it.Close()
				err = it.Err()
			case "BlockEx":
				err = col.VisitItemsAscendBlockEx(true, nil, cbEx)
				exactOrder = false
			case "Random":
				err = col.VisitItemsRandom(cbEx)
				exactOrder = false
			}
			if err != nil {
				w.Fail("reentrant", "outer-error", "outer %s returned %v (%s)", apis[api], err, desc)
			}
			if exactOrder {
				want := harness.ExpectRange(pinned, map[bool][]byte{false: {}, true: {0xff}}[descOrder], descOrder)
				var ws []string
				for _, k := range want {
					ws = append(ws, string(k))
				}
				if strings.Join(got, ",") != strings.Join(ws, ",") {
					w.Fail("reentrant", "outer-sequence", "outer %s delivered %v, the version pinned at its start has %v (%s)", apis[api], got, ws, desc)
				}
			}
			harness.Quiesce()
			if harness.Instrumented && harness.LiveLibThreads() != 0 {
				w.Fail("iterator", "producer-leak", "producer goroutine alive at the end (%s)", desc)
			}
			// every version pinned during the outer call has been released
			if cx, ok := w.Colls["x"]; ok && harness.Instrumented {
				if ri, ok := harness.Root(cx); ok && (ri.Refs != 1 || ri.Chained) {
					w.Fail("iterator", "pin-not-released", "after the outer call returned the current version has refs=%d chained=%v (expected 1, false) (%s)", ri.Refs, ri.Chained, desc)
				}
			}
			w.ObserveAll()
		})
		out := &explore.Outcome{}
		if w != nil {
			for _, v := range w.Viols {
				out.Viols = append(out.Viols, explore.Viol{Oracle: v.Oracle, Sig: v.Sig, Msg: v.Msg})
			}
			out.Sample = desc
			out.Transitions = w.Trans + 1
			out.Log = strings.Join(w.Log, "\n")
			out.ObsHash = harness.HashString(desc + out.Log)
			out.StateHash = harness.HashString(desc)
			out.NonTrivial = true
		}
		out.Viols = append(out.Viols, verdictViol(res, []string{desc})...)
		return out
	}
}

// c18FaultedIter: an ascending / descending iteration over a re-opened file with
// one failing file call at every index: Next must end (false, Err set), the
// producer must exit and the pinned version must be released.
func c18FaultedIter() explore.Exec {
	return func(c *explore.Chooser) *explore.Outcome {
		var w *harness.World
		desc := ""
		res := harness.RunExec(c, false, 0, func() {
			descending := harness.Choose(2, harness.ClassOp) == 1
			useIter := harness.Choose(2, harness.ClassOp) == 1
			w = harness.NewWorld(harness.Monitors{}, 0, c18Keys, false)
			c18Build(w, 4, 1)
			if len(w.Viols) > 0 {
				return
			}
			desc = fmt.Sprintf("descending=%v iterator=%v, one file fault", descending, useIter)
			w.Hist = append(w.Hist, desc)
			col := w.Colls["x"]
			w.File.FaultMode = 1
			harness.BeginOp("faulted visit")
			n := 0
			var err error
			target := []byte{}
			if descending {
				target = []byte{0xff}
			}
			if useIter {
				var it gkvlite.ItemIterator
				if descending {
					it = col.IterateDescend(target, true)
				} else {
					it = col.IterateAscend(target, true)
				}
				for it.Next() {
					n++
				}
				err = it.Err()
				it.Close()
			} else if descending {
				err = col.VisitItemsDescend(target, true, func(*gkvlite.Item) bool { n++; return true })
			} else {
				err = col.VisitItemsAscend(target, true, func(*gkvlite.Item) bool { n++; return true })
			}
			w.File.FaultMode = 0
			if w.File.FaultsHit > 0 && err == nil {
				w.Fail("iterator", "fault-swallowed", "the visit reported no error although a file call failed (%d items delivered) (%s)", n, desc)
			}
			if w.File.FaultsHit == 0 && (err != nil || n != 4) {
				w.Fail("iterator", "short", "fault-free visit delivered %d of 4 items, err %v (%s)", n, err, desc)
			}
			harness.Quiesce()
			if harness.Instrumented {
				if l := harness.LiveLibThreads(); l != 0 {
					w.Fail("iterator", "producer-leak", "%d producer goroutine(s) alive after a failed iteration (%s)", l, desc)
				}
				if ri, ok := harness.Root(col); ok && (ri.Refs != 1 || ri.Chained) {
					w.Fail("iterator", "pin-not-released", "after a visit that ended with an error the version is still pinned: refs=%d chained=%v (%s)", ri.Refs, ri.Chained, desc)
				}
			}
			w.SetItem("x", bs("c"), 9, bs("vc"))
			w.ObserveAll()
		})
		out := &explore.Outcome{}
		if w != nil {
			for _, v := range w.Viols {
				out.Viols = append(out.Viols, explore.Viol{Oracle: v.Oracle, Sig: v.Sig, Msg: v.Msg})
			}
			out.Sample = desc
			out.Transitions = w.Trans + 1
			out.ObsHash = harness.HashString(fmt.Sprint(c.Choices()))
			out.StateHash = harness.HashString(desc)
			out.NonTrivial = c.HasClass(explore.ClassFault)
		}
		out.Viols = append(out.Viols, verdictViol(res, []string{desc})...)
		return out
	}
}

func c18Profiles(tier string) []Profile {
	nS, nR, bound := 2, 3, 2
	if tier == "thorough" {
		nS, nR, bound = 3, 4, 3
	}
	deep := &SeqProfile{Name: "deep", Keys: [][]byte{bs("k0000"), bs("zz")}, Depth: 0, StepLimit: 100000000,
		Letters: func(w *harness.World) []Letter { return nil },
		Init: func(w *harness.World) {
			n := []int{150, 400}[harness.Choose(2, harness.ClassOp)]
			rising := harness.Choose(2, harness.ClassOp) == 1
			reopened := harness.Choose(2, harness.ClassOp) == 1
			api := harness.Choose(4, harness.ClassOp)
			w.Hist = append(w.Hist, fmt.Sprintf("n=%d priorities rising with the keys=%v reopened=%v api=%d", n, rising, reopened, api))
			w.SetCollection("x", "nil")
			for i := 0; i < n; i++ {
				p := int32(i + 1)
				if !rising {
					p = int32(n - i)
				}
				w.SetItem("x", bs(fmt.Sprintf("k%04d", i)), p, bs("v"))
			}
			if reopened {
				w.Flush()
				w.Reopen(true)
			}
			switch api {
			case 0:
				w.Visit("x", harness.APIIterAscend, []byte{}, true, -1)
			case 1:
				w.Visit("x", harness.APIIterDescend, []byte{0xff}, false, -1)
			case 2:
				w.Visit("x", harness.APIIterAscend, bs("k0100"), false, 5)
			case 3:
				w.Visit("x", harness.APIDescend, []byte{0xff}, true, -1)
			}
			harness.Quiesce()
			if harness.Instrumented && harness.LiveLibThreads() != 0 {
				w.Fail("iterator", "producer-leak", "producer goroutine alive at the end")
			}
		}}
	return []Profile{
		deep.Profile("collections of 150 and 400 items whose priorities rise or fall with the keys (a treap as deep as it is large) x {cached, re-opened} x {ascending iterator, descending key-only iterator, iterator closed after 5 items, descending visit}: iteration terminates cleanly for every collection size and shape, delivering exactly the range"),
		{Name: "faulted-iteration", Exec: c18FaultedIter(), Budget: map[int]int{explore.ClassFault: 1}, ShardLevel: 3,
			Rule: "a 4-item re-opened collection visited completely (ascending/descending, visit/iterator) with one failing file call at every index: the failure is reported, the producer goroutine exits, the pinned version is released, a following mutation and the full read battery behave"},
		{Name: "scripts-mutate", Exec: c18ScriptExec(nS, true, true), Budget: map[int]int{explore.ClassSched: 1}, ShardLevel: 3, FreeRun: true,
			Rule: fmt.Sprintf("as scripts, sizes 0..%d, with one mutation (overwrite of a key) by the consumer while the producer is parked inside its visit, every interleaving with at most 1 preemption: the iterator keeps delivering the version it pinned, and when it ends that version and the chain to its successors are released (reference count of the current version back to 1, not chained); AllocStats is read while the abandoned producer winds down (lock order)", nS)},
		{Name: "scripts", Exec: c18ScriptExec(nS, true, false), Budget: map[int]int{explore.ClassSched: bound}, ShardLevel: 3, FreeRun: true,
			Rule: fmt.Sprintf("collection sizes 0..%d x {cached, flushed+re-opened} x direction x withValue x every consumer word over {Next, Close} (ending in Close or in a Next that returned false, plus up to two further calls after the end; then AllocStats while the producer winds down) x every interleaving of consumer and producer goroutine with at most %d preemptions (channels are modelled inside the scheduler: a blocked goroutine is visibly not enabled); afterwards the consumer mutates, runs a second iterator and reads everything. Oracles: delivered sequence = model range; Next after Close/exhaustion is false; no deadlock (no enabled thread while the consumer is unfinished); no leak (no library goroutine alive at quiescence); the pinned version is released (reference count of the current version back to 1, not chained)", nS, bound)},
		{Name: "reentrant", Exec: c18Reentrant(nR), ShardLevel: 2,
			Rule: fmt.Sprintf("collection sizes 1..%d x {cached, flushed+re-opened} x outer API in {Ascend, Descend, AscendEx, DescendEx, IterateAscend, IterateDescend, AscendBlockEx, Random} x every callback position x inner call in {Get, Min, GetTotals, nested visit, Snapshot+read+Close, iterator with early close, Len, Set (overwrite), Set (new key), Delete, Flush, EvictSomeItems, SetCollection of another name, SetCollection+RemoveCollection of another name, Stats/AllocStats/MarshalJSON, SetCollection / RemoveCollection of the collection being visited (the handle the visit runs on is retired under it)} on the same store; re-acquiring a held lock would show as 'no enabled thread'. Oracles: no deadlock/hang/panic, inner results = model, the outer visit still delivers exactly the version pinned at its start, final contents = model", nR)},
	}
}

func init() {
	register(&Spec{ID: "C18", Level: "model_checking", Profiles: c18Profiles})
}
