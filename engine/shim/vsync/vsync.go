// Package vsync replaces "sync" in the instrumented build: Mutex and RWMutex
// are scheduler-aware (acquisition is a scheduling point whose enabledness the
// explorer can see); everything else is the standard library's.
package vsync

import (
	"sync"

	"github.com/cbehopkins/gkvlite/zzverif/vsched"
)

type (
	WaitGroup = sync.WaitGroup
	Once      = sync.Once
	Cond      = sync.Cond
	Map       = sync.Map
	Pool      = sync.Pool
	Locker    = sync.Locker
)

func NewCond(l Locker) *Cond { return sync.NewCond(l) }

func OnceFunc(f func()) func() { return sync.OnceFunc(f) }

// Mutex is a scheduler-aware mutual exclusion lock.
type Mutex struct {
	real sync.Mutex
	held bool
}

func (m *Mutex) Lock() {
	if vsched.Aborting() {
		return
	}
	if !vsched.Active() {
		m.real.Lock()
		return
	}
	vsched.BlockUntil(vsched.KLock, m, func() bool { return !m.held })
	if vsched.Aborting() {
		return
	}
	m.held = true
	vsched.NoteLock(m)
}

func (m *Mutex) TryLock() bool {
	if vsched.Aborting() {
		return true
	}
	if !vsched.Active() {
		return m.real.TryLock()
	}
	vsched.Yield(vsched.KLock, m)
	if m.held {
		return false
	}
	m.held = true
	return true
}

func (m *Mutex) Unlock() {
	if vsched.Aborting() {
		return
	}
	if !vsched.Active() {
		m.real.Unlock()
		return
	}
	if !m.held {
		panic("sync: unlock of unlocked mutex")
	}
	m.held = false
	vsched.NoteUnlock(m)
}

// RWMutex is a scheduler-aware reader/writer lock.
type RWMutex struct {
	real    sync.RWMutex
	writer  bool
	readers int
}

func (m *RWMutex) Lock() {
	if vsched.Aborting() {
		return
	}
	if !vsched.Active() {
		m.real.Lock()
		return
	}
	vsched.BlockUntil(vsched.KLock, m, func() bool { return !m.writer && m.readers == 0 })
	if vsched.Aborting() {
		return
	}
	m.writer = true
}

func (m *RWMutex) Unlock() {
	if vsched.Aborting() {
		return
	}
	if !vsched.Active() {
		m.real.Unlock()
		return
	}
	if !m.writer {
		panic("sync: Unlock of unlocked RWMutex")
	}
	m.writer = false
}

func (m *RWMutex) RLock() {
	if vsched.Aborting() {
		return
	}
	if !vsched.Active() {
		m.real.RLock()
		return
	}
	vsched.BlockUntil(vsched.KRLock, m, func() bool { return !m.writer })
	if vsched.Aborting() {
		return
	}
	m.readers++
}

func (m *RWMutex) RUnlock() {
	if vsched.Aborting() {
		return
	}
	if !vsched.Active() {
		m.real.RUnlock()
		return
	}
	if m.readers <= 0 {
		panic("sync: RUnlock of unlocked RWMutex")
	}
	m.readers--
}

func (m *RWMutex) TryLock() bool {
	if !vsched.Active() {
		return m.real.TryLock()
	}
	vsched.Yield(vsched.KLock, m)
	if m.writer || m.readers > 0 {
		return false
	}
	m.writer = true
	return true
}

func (m *RWMutex) TryRLock() bool {
	if !vsched.Active() {
		return m.real.TryRLock()
	}
	vsched.Yield(vsched.KRLock, m)
	if m.writer {
		return false
	}
	m.readers++
	return true
}

type rlocker RWMutex

func (r *rlocker) Lock()   { (*RWMutex)(r).RLock() }
func (r *rlocker) Unlock() { (*RWMutex)(r).RUnlock() }

func (m *RWMutex) RLocker() Locker { return (*rlocker)(m) }
