// Package vatomic replaces "sync/atomic" in the instrumented build: every
// function is a scheduling point followed by the real operation.
package vatomic

import (
	"sync/atomic"
	"unsafe"

	"github.com/cbehopkins/gkvlite/zzverif/vsched"
)

type (
	Bool    = atomic.Bool
	Int32   = atomic.Int32
	Int64   = atomic.Int64
	Uint32  = atomic.Uint32
	Uint64  = atomic.Uint64
	Uintptr = atomic.Uintptr
	Value   = atomic.Value
)

type Pointer[T any] struct{ atomic.Pointer[T] }

func pt(p interface{}) { vsched.Yield(vsched.KAtomic, p) }

func AddInt32(addr *int32, delta int32) int32             { pt(addr); return atomic.AddInt32(addr, delta) }
func AddInt64(addr *int64, delta int64) int64             { pt(addr); return atomic.AddInt64(addr, delta) }
func AddUint32(addr *uint32, delta uint32) uint32         { pt(addr); return atomic.AddUint32(addr, delta) }
func AddUint64(addr *uint64, delta uint64) uint64         { pt(addr); return atomic.AddUint64(addr, delta) }
func AddUintptr(addr *uintptr, d uintptr) uintptr         { pt(addr); return atomic.AddUintptr(addr, d) }
func LoadInt32(addr *int32) int32                         { pt(addr); return atomic.LoadInt32(addr) }
func LoadInt64(addr *int64) int64                         { pt(addr); return atomic.LoadInt64(addr) }
func LoadUint32(addr *uint32) uint32                      { pt(addr); return atomic.LoadUint32(addr) }
func LoadUint64(addr *uint64) uint64                      { pt(addr); return atomic.LoadUint64(addr) }
func LoadUintptr(addr *uintptr) uintptr                   { pt(addr); return atomic.LoadUintptr(addr) }
func LoadPointer(addr *unsafe.Pointer) unsafe.Pointer     { pt(addr); return atomic.LoadPointer(addr) }
func StoreInt32(addr *int32, v int32)                     { pt(addr); atomic.StoreInt32(addr, v) }
func StoreInt64(addr *int64, v int64)                     { pt(addr); atomic.StoreInt64(addr, v) }
func StoreUint32(addr *uint32, v uint32)                  { pt(addr); atomic.StoreUint32(addr, v) }
func StoreUint64(addr *uint64, v uint64)                  { pt(addr); atomic.StoreUint64(addr, v) }
func StoreUintptr(addr *uintptr, v uintptr)               { pt(addr); atomic.StoreUintptr(addr, v) }
func StorePointer(addr *unsafe.Pointer, v unsafe.Pointer) { pt(addr); atomic.StorePointer(addr, v) }
func SwapInt32(addr *int32, v int32) int32                { pt(addr); return atomic.SwapInt32(addr, v) }
func SwapInt64(addr *int64, v int64) int64                { pt(addr); return atomic.SwapInt64(addr, v) }
func SwapUint32(addr *uint32, v uint32) uint32            { pt(addr); return atomic.SwapUint32(addr, v) }
func SwapUint64(addr *uint64, v uint64) uint64            { pt(addr); return atomic.SwapUint64(addr, v) }
func SwapUintptr(addr *uintptr, v uintptr) uintptr        { pt(addr); return atomic.SwapUintptr(addr, v) }
func SwapPointer(addr *unsafe.Pointer, v unsafe.Pointer) unsafe.Pointer {
	pt(addr)
	return atomic.SwapPointer(addr, v)
}
func CompareAndSwapInt32(addr *int32, o, n int32) bool {
	pt(addr)
	return atomic.CompareAndSwapInt32(addr, o, n)
}
func CompareAndSwapInt64(addr *int64, o, n int64) bool {
	pt(addr)
	return atomic.CompareAndSwapInt64(addr, o, n)
}
func CompareAndSwapUint32(addr *uint32, o, n uint32) bool {
	pt(addr)
	return atomic.CompareAndSwapUint32(addr, o, n)
}
func CompareAndSwapUint64(addr *uint64, o, n uint64) bool {
	pt(addr)
	return atomic.CompareAndSwapUint64(addr, o, n)
}
func CompareAndSwapUintptr(addr *uintptr, o, n uintptr) bool {
	pt(addr)
	return atomic.CompareAndSwapUintptr(addr, o, n)
}
func CompareAndSwapPointer(addr *unsafe.Pointer, o, n unsafe.Pointer) bool {
	pt(addr)
	return atomic.CompareAndSwapPointer(addr, o, n)
}
