// Package vrand replaces "math/rand" in the instrumented build: the three
// functions gkvlite uses ask the explorer for their answer, so the random
// eviction walk, the block shuffle and Set's priorities are enumerated rather
// than sampled.  Everything else forwards to math/rand.
package vrand

import (
	"math/rand"

	"github.com/cbehopkins/gkvlite/zzverif/vsched"
)

type (
	Rand     = rand.Rand
	Source   = rand.Source
	Source64 = rand.Source64
	Zipf     = rand.Zipf
)

func New(src Source) *Rand                             { return rand.New(src) }
func NewSource(seed int64) Source                      { return rand.NewSource(seed) }
func NewZipf(r *Rand, s, v float64, imax uint64) *Zipf { return rand.NewZipf(r, s, v, imax) }
func Seed(seed int64)                                  { rand.Seed(seed) }

// Priorities handed out by Int31 under the explorer.
var Int31Domain = []int32{1 << 10, 2 << 10, 3 << 10}

func Int() int {
	if !vsched.Active() {
		return rand.Int()
	}
	return vsched.Choose(2, vsched.ClassRand)
}

func Intn(n int) int {
	if !vsched.Active() {
		return rand.Intn(n)
	}
	if n <= 0 {
		panic("invalid argument to Intn")
	}
	return vsched.Choose(n, vsched.ClassRand)
}

func Int31() int32 {
	if !vsched.Active() {
		return rand.Int31()
	}
	return Int31Domain[vsched.Choose(len(Int31Domain), vsched.ClassRand)]
}

func Int31n(n int32) int32 {
	if !vsched.Active() {
		return rand.Int31n(n)
	}
	return int32(vsched.Choose(int(n), vsched.ClassRand))
}

func Int63() int64 {
	if !vsched.Active() {
		return rand.Int63()
	}
	return int64(vsched.Choose(2, vsched.ClassRand))
}

func Int63n(n int64) int64 {
	if !vsched.Active() {
		return rand.Int63n(n)
	}
	return int64(vsched.Choose(int(n), vsched.ClassRand))
}

func Uint32() uint32 {
	if !vsched.Active() {
		return rand.Uint32()
	}
	return uint32(vsched.Choose(2, vsched.ClassRand))
}

func Uint64() uint64 {
	if !vsched.Active() {
		return rand.Uint64()
	}
	return uint64(vsched.Choose(2, vsched.ClassRand))
}

func Float32() float32           { return rand.Float32() }
func Float64() float64           { return rand.Float64() }
func ExpFloat64() float64        { return rand.ExpFloat64() }
func NormFloat64() float64       { return rand.NormFloat64() }
func Read(p []byte) (int, error) { return rand.Read(p) }

func Perm(n int) []int {
	if !vsched.Active() {
		return rand.Perm(n)
	}
	m := make([]int, n)
	for i := 0; i < n; i++ {
		j := Intn(i + 1)
		m[i] = m[j]
		m[j] = i
	}
	return m
}

func Shuffle(n int, swap func(i, j int)) {
	if !vsched.Active() {
		rand.Shuffle(n, swap)
		return
	}
	for i := n - 1; i > 0; i-- {
		swap(i, Intn(i+1))
	}
}
