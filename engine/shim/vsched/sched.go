// Package vsched is the controlled scheduler that the instrumented build of
// gkvlite runs under.  Exactly one managed thread (goroutine) runs at a time;
// every synchronisation operation, channel operation, spawn, racy accessor
// (T3) and file call is a *point* at which the explorer may decide who runs
// next.  With no execution active every operation falls back to the real
// primitive, so the instrumented package still works free-running.
//
// This package is mounted by the overlay as
// github.com/cbehopkins/gkvlite/zzverif/vsched.
package vsched

import (
	"fmt"
	"reflect"
	"runtime/debug"
	"sort"
	"sync"
)

// Choice classes.
const (
	ClassOp      = 0 // which letter of the alphabet comes next
	ClassSched   = 1 // which thread runs next
	ClassRand    = 2 // answer of math/rand
	ClassFault   = 3 // environment: fail / tear this I/O call
	ClassCrash   = 4
	ClassPreempt = 5 // a ClassSched choice that costs a preemption when != 0
)

// Point kinds (for statistics and for the optional reductions).
const (
	KStart = iota
	KLock
	KRLock
	KAtomic
	KSend
	KRecv
	KClose
	KSpawn
	KYield // T3 accessor
	KIO
	KCallback
	KUser
)

// Chooser is implemented by the explorer.
type Chooser interface {
	// Choose returns a value in [0,n) for an environment choice.
	Choose(n int, class int) int
	// ChooseSched picks one of n enabled threads; alternative 0 is the running
	// thread when runningEnabled is true.
	ChooseSched(n int, runningEnabled bool) int
}

// Verdict kinds.
const (
	VOK       = ""
	VPanic    = "PANIC"
	VDeadlock = "DEADLOCK"
	VLeak     = "LEAK"
	VHang     = "HANG"
)

// Result of one execution.
type Result struct {
	Verdict   string
	Msg       string
	Stack     string
	Points    int64 // scheduling points passed
	Switches  int64
	Threads   int
	LibParked int      // library-spawned threads still parked when all harness threads had finished
	Notes     []string // lock-discipline findings (T7)
}

type opDesc struct {
	kind int
	obj  interface{} // *Mutex state, chan, ...
	en   func() bool // nil = always enabled
}

type thread struct {
	id      int
	lib     bool
	wake    chan struct{}
	pending opDesc
	done    bool
	started bool
	opSteps int64
	label   string
	held    []interface{} // locks currently held (T7)
	// channel hand-off
	xfer   interface{}
	xferOK bool
	xdone  bool
}

type exec struct {
	threads     []*thread
	running     *thread
	chooser     Chooser
	preemptive  bool
	stepLimit   int64
	points      int64
	switches    int64
	clock       int64
	aborted     bool
	res         Result
	done        chan struct{}
	wg          sync.WaitGroup
	finished    bool
	acc         map[accKey]*accState
	pubMaps     map[uintptr]interface{}
	mapReported bool
}

var cur *exec

type abortT struct{}

var abortSentinel = &abortT{}

// Config for Run.
type Config struct {
	Chooser    Chooser
	Preemptive bool  // false: a running thread keeps running while it is enabled
	StepLimit  int64 // per BeginOp budget of points (0 = default)
}

// Active reports whether an execution is in progress.
func Active() bool { return cur != nil && !cur.aborted }

// Aborting reports whether the current execution is being torn down.
func Aborting() bool { return cur != nil && cur.aborted }

// Run executes main as thread 0 under the scheduler and returns when every
// thread has finished or the execution was aborted.
func Run(cfg Config, main func()) Result {
	if cur != nil {
		panic("vsched: nested Run")
	}
	e := &exec{chooser: cfg.Chooser, preemptive: cfg.Preemptive, stepLimit: cfg.StepLimit, done: make(chan struct{})}
	if e.stepLimit == 0 {
		e.stepLimit = 3000000
	}
	cur = e
	t := e.spawn(main, false)
	e.running = t
	t.wake <- struct{}{}
	<-e.done
	e.wg.Wait()
	cur = nil
	e.res.Points = e.points
	e.res.Switches = e.switches
	e.res.Threads = len(e.threads)
	return e.res
}

func (e *exec) spawn(f func(), lib bool) *thread {
	t := &thread{id: len(e.threads), lib: lib, wake: make(chan struct{}, 1)}
	t.pending = opDesc{kind: KStart}
	e.threads = append(e.threads, t)
	e.wg.Add(1)
	go func() {
		defer e.wg.Done()
		<-t.wake
		t.started = true
		defer func() {
			r := recover()
			if r != nil && r != interface{}(abortSentinel) {
				if !e.aborted {
					e.res.Verdict = VPanic
					e.res.Msg = fmt.Sprint(r)
					e.res.Stack = string(debug.Stack())
					e.aborted = true
				}
			}
			t.done = true
			e.threadExit(t)
		}()
		if e.aborted {
			return
		}
		f()
	}()
	return t
}

// Go spawns a harness thread.
func Go(f func()) {
	e := cur
	if e == nil {
		go f()
		return
	}
	if e.aborted {
		return
	}
	e.spawn(f, false)
	e.point(opDesc{kind: KSpawn})
}

// GoLib spawns a thread on behalf of the library (rewritten `go` statements).
func GoLib(f func()) {
	e := cur
	if e == nil {
		go f()
		return
	}
	if e.aborted {
		return
	}
	e.spawn(f, true)
	e.point(opDesc{kind: KSpawn})
}

func (e *exec) enabledList(first *thread) []*thread {
	var out []*thread
	if first != nil && !first.done && (first.pending.en == nil || first.pending.en()) {
		out = append(out, first)
	}
	for _, t := range e.threads {
		if t == first || t.done {
			continue
		}
		if t.pending.en == nil || t.pending.en() {
			out = append(out, t)
		}
	}
	return out
}

func (e *exec) abort(verdict, msg string) {
	if !e.aborted {
		e.aborted = true
		if e.res.Verdict == "" {
			e.res.Verdict = verdict
			e.res.Msg = msg
		}
	}
	panic(abortSentinel)
}

func (e *exec) describeBlocked() string {
	s := ""
	for _, t := range e.threads {
		if t.done {
			continue
		}
		s += fmt.Sprintf("[t%d lib=%v kind=%d label=%s] ", t.id, t.lib, t.pending.kind, t.label)
	}
	return s
}

// point is called by the running thread before a visible operation.
func (e *exec) point(op opDesc) {
	if e.aborted {
		return
	}
	t := e.running
	e.points++
	t.opSteps++
	if t.opSteps > e.stepLimit {
		e.abort(VHang, fmt.Sprintf("step budget %d exceeded inside %q (thread %d)", e.stepLimit, t.label, t.id))
	}
	selfEnabled := op.en == nil || op.en()
	if !e.preemptive && selfEnabled {
		return
	}
	if selfEnabled && len(e.threads) == 1 {
		return
	}
	t.pending = op
	en := e.enabledList(t)
	if len(en) == 0 {
		// nobody can run
		harnessWaiting := false
		for _, x := range e.threads {
			if !x.done && !x.lib {
				harnessWaiting = true
			}
		}
		if harnessWaiting {
			e.abort(VDeadlock, "no enabled thread: "+e.describeBlocked())
		}
		e.abort(VLeak, "library thread blocked forever: "+e.describeBlocked())
	}
	var next *thread
	if len(en) == 1 {
		next = en[0]
	} else if !e.preemptive {
		next = en[0]
	} else {
		k := e.chooser.ChooseSched(len(en), selfEnabled)
		if k < 0 || k >= len(en) {
			panic(fmt.Sprintf("vsched: scheduler choice %d out of range %d", k, len(en)))
		}
		next = en[k]
	}
	if next == t {
		t.pending = opDesc{}
		return
	}
	e.switches++
	e.running = next
	next.wake <- struct{}{}
	<-t.wake
	// resumed
	if e.aborted {
		panic(abortSentinel)
	}
	t.pending = opDesc{}
}

func (e *exec) threadExit(t *thread) {
	if e.finished {
		return
	}
	if e.aborted {
		// unwind remaining threads one at a time
		for _, x := range e.threads {
			if !x.done {
				e.running = x
				x.wake <- struct{}{}
				return
			}
		}
		e.finished = true
		close(e.done)
		return
	}
	en := e.enabledList(nil)
	if len(en) == 0 {
		alive, harnessAlive := 0, 0
		for _, x := range e.threads {
			if !x.done {
				alive++
				if !x.lib {
					harnessAlive++
				}
			}
		}
		if alive == 0 {
			e.finished = true
			close(e.done)
			return
		}
		if harnessAlive > 0 {
			e.res.Verdict = VDeadlock
			e.res.Msg = "no enabled thread: " + e.describeBlocked()
		} else {
			e.res.LibParked = alive
			e.res.Verdict = VLeak
			e.res.Msg = "library thread parked forever: " + e.describeBlocked()
		}
		e.aborted = true
		e.threadExit(t)
		return
	}
	var next *thread
	if len(en) == 1 || !e.preemptive {
		next = en[0]
	} else {
		k := e.chooser.ChooseSched(len(en), false)
		next = en[k]
	}
	e.switches++
	e.running = next
	next.wake <- struct{}{}
}

// Yield is a scheduling point with no enabling condition (T3 accessors, I/O,
// callbacks).
func Yield(kind int, obj interface{}) {
	e := cur
	if e == nil || e.aborted {
		return
	}
	e.point(opDesc{kind: kind, obj: obj})
}

// BeginOp labels the API call the current thread is about to make and resets
// its step budget.
func BeginOp(label string) {
	e := cur
	if e == nil || e.aborted {
		return
	}
	e.running.label = label
	e.running.opSteps = 0
}

// Tick advances and returns the logical clock.
func Tick() int64 {
	e := cur
	if e == nil {
		return 0
	}
	e.clock++
	return e.clock
}

// ThreadID of the running thread (0 when inactive).
func ThreadID() int {
	e := cur
	if e == nil || e.running == nil {
		return 0
	}
	return e.running.id
}

// Choose asks the explorer for an environment choice.
func Choose(n int, class int) int {
	e := cur
	if e == nil || e.aborted || e.chooser == nil {
		return 0
	}
	if n <= 1 {
		return 0
	}
	k := e.chooser.Choose(n, class)
	if k < 0 || k >= n {
		panic(fmt.Sprintf("vsched: choice %d out of range %d", k, n))
	}
	return k
}

// BlockUntil parks the running thread until cond() holds (used by the modelled
// primitives).
func BlockUntil(kind int, obj interface{}, cond func() bool) {
	e := cur
	if e == nil || e.aborted {
		return
	}
	e.point(opDesc{kind: kind, obj: obj, en: cond})
}

// MapOrderDesc selects the iteration order T5 gives to string-keyed maps:
// ascending keys (default) or descending keys.  Go leaves the order undefined,
// so code must be correct under both; the harness explores both where several
// collections exist.
var MapOrderDesc bool

// SortedKeys returns the keys of a string-keyed map in a deterministic order (T5).
func SortedKeys[V any](m map[string]V) []string {
	ks := make([]string, 0, len(m))
	for k := range m {
		ks = append(ks, k)
	}
	sort.Strings(ks)
	if MapOrderDesc {
		for i, j := 0, len(ks)-1; i < j; i, j = i+1, j-1 {
			ks[i], ks[j] = ks[j], ks[i]
		}
	}
	return ks
}

// EventHook, when set by the harness, receives events reported by instrumented
// code (T6: successful rootCAS publications).
var EventHook func(kind string, obj interface{})

// Event reports an event to the harness.
func Event(kind string, obj interface{}) {
	if EventHook != nil && cur != nil && !cur.aborted {
		EventHook(kind, obj)
	}
}

// Quiesce parks the calling thread until no other thread can run (every other
// thread has finished or is blocked).
func Quiesce() {
	e := cur
	if e == nil || e.aborted {
		return
	}
	self := e.running
	e.point(opDesc{kind: KUser, en: func() bool {
		for _, x := range e.threads {
			if x == self || x.done {
				continue
			}
			if x.pending.en == nil || x.pending.en() {
				return false
			}
		}
		return true
	}})
}

// LiveLibThreads returns the number of library-spawned threads that have not finished.
func LiveLibThreads() int {
	e := cur
	if e == nil {
		return 0
	}
	n := 0
	for _, x := range e.threads {
		if x.lib && !x.done {
			n++
		}
	}
	return n
}

// ---------------------------------------------------------------- lock discipline (T7)
//
// The instrumented build reports every access to the lock-protected fields of
// a version handle (rootNodeLoc.refs and its chain fields).  For each (object,
// field) the scheduler keeps the Eraser state machine: exclusive to the first
// thread; once a second thread touches it, the candidate lock set is the
// intersection of the locks held at every access from then on.  An empty set
// means no single lock protects the field: with real parallelism the updates
// race (lost reference counts), although under this scheduler - where code
// between two points is atomic - nothing would ever go wrong.

// NoteLock / NoteUnlock are called by vsync.
func NoteLock(l interface{}) {
	e := cur
	if e == nil || e.aborted || e.running == nil {
		return
	}
	e.running.held = append(e.running.held, l)
}

func NoteUnlock(l interface{}) {
	e := cur
	if e == nil || e.aborted || e.running == nil {
		return
	}
	h := e.running.held
	for i := len(h) - 1; i >= 0; i-- {
		if h[i] == l {
			e.running.held = append(h[:i], h[i+1:]...)
			return
		}
	}
}

type accKey struct {
	obj   interface{}
	field string
}

type accState struct {
	owner    *thread
	shared   bool
	cand     []interface{}
	reported bool
}

// Access records an access of the running thread to a lock-protected field.
func Access(obj interface{}, field string) {
	e := cur
	if e == nil || e.aborted || e.running == nil || obj == nil {
		return
	}
	if e.acc == nil {
		e.acc = map[accKey]*accState{}
	}
	k := accKey{obj, field}
	st := e.acc[k]
	t := e.running
	if st == nil {
		e.acc[k] = &accState{owner: t}
		return
	}
	if !st.shared {
		if st.owner == t {
			return
		}
		st.shared = true
		st.cand = append([]interface{}{}, t.held...)
	} else {
		var keep []interface{}
		for _, c := range st.cand {
			for _, h := range t.held {
				if c == h {
					keep = append(keep, c)
					break
				}
			}
		}
		st.cand = keep
	}
	if len(st.cand) == 0 && !st.reported {
		st.reported = true
		if len(e.res.Notes) < 4 {
			e.res.Notes = append(e.res.Notes, fmt.Sprintf("lock discipline: field %s of a version handle is accessed by threads %d and %d without a common lock (thread %d holds %d lock(s))", field, st.owner.id, t.id, t.id, len(t.held)))
		}
	}
}

// MapPublish records that the collections map m has been visible to readers
// (T8): from now on it must never change.  The map is kept alive so that its
// address cannot be reused within the execution.
func MapPublish(m interface{}) {
	e := cur
	if e == nil || e.aborted {
		return
	}
	if e.pubMaps == nil {
		e.pubMaps = map[uintptr]interface{}{}
	}
	e.pubMaps[reflect.ValueOf(m).Pointer()] = m
}

// MapWrite is called before a store into or a delete from a collections map.
func MapWrite(m interface{}, where string) {
	e := cur
	if e == nil || e.aborted || e.pubMaps == nil {
		return
	}
	if _, ok := e.pubMaps[reflect.ValueOf(m).Pointer()]; ok && !e.mapReported {
		e.mapReported = true
		e.res.Notes = append(e.res.Notes, "copy-on-write discipline: a collections map that readers may hold is modified in place at "+where)
	}
}

// AccessReset forgets what is known about obj (it was just (re)allocated).
func AccessReset(obj interface{}) {
	e := cur
	if e == nil || e.acc == nil {
		return
	}
	for k := range e.acc {
		if k.obj == obj {
			delete(e.acc, k)
		}
	}
}
