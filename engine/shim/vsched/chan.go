package vsched

// Chan is a model of a Go channel that lives inside the scheduler: blocking is
// visible to the explorer (a blocked thread is simply not enabled), so
// deadlocks and leaked goroutines are detected structurally rather than by a
// timeout.  Semantics follow the Go specification: rendezvous for capacity 0,
// FIFO buffer otherwise, receive from a closed channel yields the zero value
// and ok=false once the buffer is drained, send on / close of a closed channel
// panics.  With no execution active it is backed by a real channel.
type Chan[T any] struct {
	real   chan T
	cap    int
	buf    []T
	closed bool
	// rendezvous: parked senders (FIFO) and parked receivers (FIFO)
	sendq []*sendW[T]
	recvq []*recvW[T]
}

type sendW[T any] struct {
	v     T
	taken bool
}

type recvW[T any] struct {
	v     T
	ok    bool
	given bool
}

// MakeChan replaces make(chan T, n).
func MakeChan[T any](n int) *Chan[T] {
	c := &Chan[T]{cap: n}
	if cur == nil {
		c.real = make(chan T, n)
	}
	return c
}

func (c *Chan[T]) useReal() bool { return cur == nil && c != nil && c.real != nil }

// Send replaces c <- v.
func (c *Chan[T]) Send(v T) {
	if c.useReal() {
		c.real <- v
		return
	}
	e := cur
	if e == nil || e.aborted {
		return
	}
	if c == nil {
		BlockUntil(KSend, c, func() bool { return false })
		return
	}
	// enabled iff closed (then panics), buffer has room, or a receiver is parked
	w := &sendW[T]{v: v}
	enabled := func() bool {
		if w.taken || c.closed {
			return true
		}
		if c.cap > 0 && len(c.buf) < c.cap {
			return true
		}
		for _, r := range c.recvq {
			if !r.given {
				return true
			}
		}
		return false
	}
	// publish as parked sender so that a receiver arriving later can take from us
	c.sendq = append(c.sendq, w)
	e.point(opDesc{kind: KSend, obj: c, en: enabled})
	if e.aborted {
		return
	}
	// remove from queue
	c.removeSend(w)
	if w.taken {
		return
	}
	if c.closed {
		panic("send on closed channel")
	}
	for _, r := range c.recvq {
		if !r.given {
			r.v, r.ok, r.given = v, true, true
			return
		}
	}
	if c.cap > 0 && len(c.buf) < c.cap {
		c.buf = append(c.buf, v)
		return
	}
	panic("vsched: Send resumed while not enabled")
}

func (c *Chan[T]) removeSend(w *sendW[T]) {
	for i, x := range c.sendq {
		if x == w {
			c.sendq = append(c.sendq[:i], c.sendq[i+1:]...)
			return
		}
	}
}

func (c *Chan[T]) removeRecv(w *recvW[T]) {
	for i, x := range c.recvq {
		if x == w {
			c.recvq = append(c.recvq[:i], c.recvq[i+1:]...)
			return
		}
	}
}

// Recv2 replaces v, ok := <-c.
func (c *Chan[T]) Recv2() (T, bool) {
	var zero T
	if c.useReal() {
		v, ok := <-c.real
		return v, ok
	}
	e := cur
	if e == nil || e.aborted {
		return zero, false
	}
	if c == nil {
		BlockUntil(KRecv, c, func() bool { return false })
		return zero, false
	}
	w := &recvW[T]{}
	enabled := func() bool {
		if w.given || len(c.buf) > 0 || c.closed {
			return true
		}
		for _, s := range c.sendq {
			if !s.taken {
				return true
			}
		}
		return false
	}
	c.recvq = append(c.recvq, w)
	e.point(opDesc{kind: KRecv, obj: c, en: enabled})
	if e.aborted {
		return zero, false
	}
	c.removeRecv(w)
	if w.given {
		return w.v, w.ok
	}
	if len(c.buf) > 0 {
		v := c.buf[0]
		c.buf = c.buf[1:]
		// a parked sender may now move its value into the buffer
		for _, s := range c.sendq {
			if !s.taken {
				c.buf = append(c.buf, s.v)
				s.taken = true
				break
			}
		}
		return v, true
	}
	for _, s := range c.sendq {
		if !s.taken {
			s.taken = true
			return s.v, true
		}
	}
	if c.closed {
		return zero, false
	}
	panic("vsched: Recv resumed while not enabled")
}

// Recv replaces <-c.
func (c *Chan[T]) Recv() T {
	v, _ := c.Recv2()
	return v
}

// Close replaces close(c).
func (c *Chan[T]) Close() {
	if c.useReal() {
		close(c.real)
		return
	}
	e := cur
	if e == nil || e.aborted {
		return
	}
	if c == nil {
		panic("close of nil channel")
	}
	e.point(opDesc{kind: KClose, obj: c})
	if e.aborted {
		return
	}
	if c.closed {
		panic("close of closed channel")
	}
	c.closed = true
}

// Len and Cap replace len(c) / cap(c).
func (c *Chan[T]) Len() int {
	if c.useReal() {
		return len(c.real)
	}
	if c == nil {
		return 0
	}
	return len(c.buf)
}

func (c *Chan[T]) Cap() int {
	if c == nil {
		return 0
	}
	return c.cap
}
