// Package replaytest re-executes a recorded counterexample as a plain unit
// test, without the explorer: no search, no sharding, one execution.
//
//	VERIF_REPLAY=/verif/replays/C08-xxxx.json VERIF_PROP=C08 go test ./replaytest -run TestReplay -v
//
// Built without the overlay it drives the untouched library through its public
// API only (histories whose outcome depends on explorer-chosen schedules,
// faults or random answers need the instrumented build: `check <ID> --replay`).
package replaytest

import (
	"encoding/json"
	"os"
	"testing"

	"gkvverif/explore"
	"gkvverif/props"
)

func TestReplay(t *testing.T) {
	file, prop := os.Getenv("VERIF_REPLAY"), os.Getenv("VERIF_PROP")
	if file == "" || prop == "" {
		t.Skip("set VERIF_REPLAY and VERIF_PROP")
	}
	b, err := os.ReadFile(file)
	if err != nil {
		t.Fatal(err)
	}
	var f explore.Found
	if err := json.Unmarshal(b, &f); err != nil {
		t.Fatal(err)
	}
	spec := props.Registry[prop]
	if spec == nil {
		t.Fatalf("unknown property %s", prop)
	}
	for _, tier := range []string{"quick", "thorough"} {
		for _, p := range spec.Profiles(tier) {
			if p.Name != f.Profile {
				continue
			}
			c := &explore.Chooser{Prefix: f.Choices}
			o := p.Exec(c)
			t.Logf("history: %s", o.Sample)
			t.Logf("observation log:\n%s", o.Log)
			if c.Diverged != "" {
				t.Fatalf("the recorded choice sequence does not fit this build: %s", c.Diverged)
			}
			for _, v := range o.Viols {
				t.Errorf("[%s] %s", v.Sig, v.Msg)
			}
			return
		}
	}
	t.Fatalf("profile %s not found", f.Profile)
}
